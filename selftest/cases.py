"""Seeded mutants (each still compiles) and neutral edits for `./check selftest`.
An edit = exact-text replacement that must match exactly once in the named file of /repo."""


def E(file, old, new, count=1):
    return dict(file=file, old=old, new=new, count=count)


MUTANTS = [
    # ---------------- C01
    dict(name="c01-drop-consume-assert", prop="C01", expect="C01.R1:circular_buffer::Buffer::consume",
         edits=[E("src/circular_buffer.rs", """        assert!(
            n <= s.used,
            "trying to consume {}, but only have {}",
            n,
            s.used
        );
""", "")]),
    dict(name="c01-consume-assert-to-debug", prop="C01", expect="C01.R1:circular_buffer::Buffer::consume",
         edits=[E("src/circular_buffer.rs", """        assert!(
            n <= s.used,""", """        debug_assert!(
            n <= s.used,""")]),
    dict(name="c01-drop-both-produce-asserts", prop="C01", expect="C01.R1:circular_buffer::Buffer::produce",
         edits=[E("src/circular_buffer.rs", """        assert!(
            s.free() >= n,
            "tried to produce {n}, but only {} is free out of {}",
            s.free(),
            self.total_size()
        );
        assert!(
            s.write_capacity() >= n,
            "can't produce that much. {} < {}",
            s.write_capacity(),
            n
        );
""", "")]),
    dict(name="c01-remove-element-size-check", prop="C01", expect="C01.R2:circular_buffer::Buffer::new",
         edits=[E("src/circular_buffer.rs", "        if member_size == 0 || size % member_size != 0 {", "        if member_size == 0 {")]),
    dict(name="c01-unchecked-window", prop="C01", expect="C01.R3:circular_buffer::Circ::full_buffer",
         edits=[E("src/circular_buffer.rs", "        &mut buf[start..end]\n", "        // SAFETY: mutant\n        unsafe { buf.get_unchecked_mut(start..end) }\n")]),
    # ---------------- C02
    dict(name="c02-drop-pos-filter", prop="C02", expect="C02.R2:circular_buffer::Buffer::produce",
         edits=[E("src/circular_buffer.rs", """            if tag.pos() >= n {
                continue;
            }
""", "")]),
    dict(name="c02-remove-in-read_buf", prop="C02", expect="C02.R1:circular_buffer::Buffer::read_buf",
         edits=[E("src/circular_buffer.rs", "        let s = self.state.0.lock().unwrap();\n        let (start, end) = s.read_range();\n        let mut tags",
                  "        let mut s = self.state.0.lock().unwrap();\n        let (start, end) = s.read_range();\n        s.tags.remove(&usize::MAX);\n        let mut tags")]),
    # ---------------- C03
    dict(name="c03-readstream-clone", prop="C03", expect="witness:w_c03_r4_readstream_not_clone",
         edits=[E("src/stream.rs", "#[derive(Debug)]\npub struct ReadStream<T> {", "#[derive(Debug, Clone)]\npub struct ReadStream<T> {")]),
    dict(name="c03-pub-slice-mut", prop="C03", expect="witness:w_c03_r4_buffer_slice_mut_private",
         edits=[E("src/circular_buffer.rs", "    pub(crate) fn slice_mut(&self", "    pub fn slice_mut(&self")]),
    dict(name="c03-new-raw-accessor", prop="C03", expect="C03.R1:",
         edits=[E("src/circular_buffer.rs", "    pub(crate) fn slice(&self, start: usize, end: usize) -> &[T] {", "    /// Whole ring.\n    pub fn raw(&self) -> &mut [T] {\n        self.circ.full_buffer::<T>(0, self.total_size())\n    }\n\n    pub(crate) fn slice(&self, start: usize, end: usize) -> &[T] {")]),
    dict(name="c03-drop-refcount-ceiling", prop="C03", expect="C03.R7:stream::WriteStream::write_buf",
         edits=[E("src/stream.rs", """        if refcount > 3 {
            return Err(Error::msg(format!(
                "write_buf() called with refcount {refcount}"
            )));
        }
""", "")]),
    dict(name="c03-range-outside-lock", prop="C03", expect="C03.R2:circular_buffer::Buffer::write_buf",
         edits=[E("src/circular_buffer.rs", """        let s = self.state.0.lock().unwrap();
        let (start, end) = s.write_range();
        drop(s);""", """        let start = self.state.0.lock().unwrap().write_range().0;
        let end = self.state.0.lock().unwrap().write_range().1;""")]),
    dict(name="c03-consume-pub", prop="C03", expect="witness:w_c03_r4_buffer_consume_private",
         edits=[E("src/circular_buffer.rs", "    pub(in crate::circular_buffer) fn consume(&self, n: usize) {", "    pub fn consume(&self, n: usize) {")]),
    dict(name="c03-lock-order-cycle", prop="C03", expect="C03.R6:",
         edits=[E("src/vector_sink.rs", """    /// Max number of samples and/or tags to store.
    max_size: usize,
}""", """    /// Max number of samples and/or tags to store.
    max_size: usize,

    #[rustradio(default)]
    stats: Arc<Mutex<usize>>,
}"""),
                E("src/vector_sink.rs", """            i.consume(ilen);
        }""", """            i.consume(ilen);
            *self.stats.lock().unwrap() += n;
        }"""),
                E("src/vector_sink.rs", """impl<T: Copy> VectorSink<T> {
    /// Get a Hook into the data that will be written.""", """impl<T: Copy> VectorSink<T> {
    /// Total (mutant: locks stats, then storage - the opposite order of work()).
    pub fn total(&self) -> usize {
        let s = self.stats.lock().unwrap();
        let st = self.storage.lock().unwrap();
        *s + st.0.len()
    }
    /// Get a Hook into the data that will be written.""")]),
    # ---------------- C04
    dict(name="c04-swap-reads-in-eof", prop="C04", expect="C04.R1:stream::ReadStream::eof",
         edits=[E("src/stream.rs", """        let refcount = Arc::strong_count(&self.circ);
        if refcount != 1 {
            return false;
        }
        // Refcount 1 means that that the WriteStream has closed. No more data is coming. So as
        // long as the buffer is empty, that's it then.
        let (b, _) = Arc::clone(&self.circ)
            .read_buf()
            .expect("can't happen: read_buf() failed");
        b.is_empty()""", """        let (b, _) = Arc::clone(&self.circ)
            .read_buf()
            .expect("can't happen: read_buf() failed");
        let empty = b.is_empty();
        drop(b);
        let refcount = Arc::strong_count(&self.circ);
        if refcount != 1 {
            return false;
        }
        empty""")]),
    dict(name="c04-revert-wait-order", prop="C04", expect="C04.R1:stream::ReadStream::wait_for_read",
         edits=[E("src/stream.rs", """        let closed = Arc::strong_count(&self.circ) == 1;
        self.circ.wait_for_read(need) < need && closed""", """        self.circ.wait_for_read(need) < need && Arc::strong_count(&self.circ) == 1""")]),
    dict(name="c04-nc-eof-order", prop="C04", expect="C04.R1:stream::NCReadStream::eof",
         edits=[E("src/stream.rs", """        let closed = Arc::strong_count(&self.q) == 1;
        closed && self.q.0.lock().unwrap().is_empty()""", """        let empty = self.q.0.lock().unwrap().is_empty();
        empty && Arc::strong_count(&self.q) == 1""")]),
    dict(name="c04-count-le-2", prop="C04", expect="C04.R2:stream::NCReadStream::eof",
         edits=[E("src/stream.rs", "        let closed = Arc::strong_count(&self.q) == 1;\n        closed && self.q", "        let closed = Arc::strong_count(&self.q) <= 2;\n        closed && self.q")]),
    dict(name="c04-closed-ignores-liveness", prop="C04", expect="C04.R2:stream::WriteStream::wait_for_write",
         edits=[E("src/stream.rs", "        self.circ.wait_for_write(need) < need && Arc::strong_count(&self.circ) == 1", "        self.circ.wait_for_write(need) < need")]),
    dict(name="c04-untimed-wait", prop="C04", expect="C04.R3:circular_buffer::Buffer::wait_for_read",
         edits=[E("src/circular_buffer.rs", """        cv.wait_timeout_while(
            lock.lock().unwrap(),
            std::time::Duration::from_millis(100),
            |s| s.used < need,
        )
        .unwrap()
        .0
        .used""", """        cv.wait_while(lock.lock().unwrap(), |s| s.used < need)
            .unwrap()
            .used""")]),
    dict(name="c04-generated-eof-or", prop="C04", expect="C04.R4:",
         edits=[E("rustradio_macros/src/lib.rs", "if true #(&&self.#in_names.eof())* {", "if false #(||self.#in_names.eof())* {")]),
    # ---------------- C05
    dict(name="c05-again-break", prop="C05", expect=":a:Again",
         edits=[E("src/mtgraph.rs", "                            BlockRet::Again => {}", "                            BlockRet::Again => {\n                                break;\n                            }")]),
    dict(name="c05-pending-break", prop="C05", expect=":a:Pending",
         edits=[E("src/mtgraph.rs", "                                std::thread::sleep(idle_sleep);\n", "                                std::thread::sleep(idle_sleep);\n                                break;\n")]),
    dict(name="c05-eof-and-wait", prop="C05", expect="WaitForStream:b:wait_true",
         edits=[E("src/mtgraph.rs", "if b.eof() || eof {", "if b.eof() && eof {")]),
    dict(name="c05-eof-ignored", prop="C05", expect=":d:EOF",
         edits=[E("src/mtgraph.rs", """                            BlockRet::EOF => {
                                break;
                            }""", """                            BlockRet::EOF => {}""")]),
    dict(name="c05-wait-result-dropped", prop="C05", expect="WaitForStream:b:wait_true",
         edits=[E("src/mtgraph.rs", """                                let eof = stream.wait(need);
                                drop(ret);
                                if b.eof() || eof {""", """                                let _ = stream.wait(need);
                                drop(ret);
                                if b.eof() {""")]),
    dict(name="c05-no-wait", prop="C05", expect="WaitForStream:f:wait",
         edits=[E("src/mtgraph.rs", """                            BlockRet::WaitForStream(stream, need) => {
                                let eof = stream.wait(need);
                                drop(ret);
                                if b.eof() || eof {
                                    break;
                                }
                            }""", """                            BlockRet::WaitForStream(stream, _need) => {
                                let closed = stream.closed();
                                drop(ret);
                                if b.eof() || closed {
                                    break;
                                }
                            }""")]),
    dict(name="c05-spawn-error-no-cancel", prop="C05", expect="C05.R2:",
         edits=[E("src/mtgraph.rs", "                    self.cancel_token.cancel();\n                    break;", "                    break;")]),
    dict(name="c05-threads-not-joined", prop="C05", expect="C07.R4:",
         edits=[E("src/mtgraph.rs", """                Err(e) => {
                    error!("Thread {} failed: {}", name, e);
                    if first_err.is_none() {
                        first_err = Some(e);
                    }
                }""", """                Err(e) => {
                    error!("Thread {} failed: {}", name, e);
                    return Err(e);
                }""")]),
    # ---------------- C06
    dict(name="c06-again-no-done-false", prop="C06", expect="C06.R1:<graph::Graph as graph::GraphRunner>::run:Again",
         edits=[E("src/graph.rs", "                        done = false;\n                        all_idle = false;", "                        all_idle = false;")]),
    dict(name="c06-pending-no-done-false", prop="C06", expect="C06.R1:<graph::Graph as graph::GraphRunner>::run:Pending",
         edits=[E("src/graph.rs", """                    BlockRet::Pending => {
                        done = false;
                    }""", """                    BlockRet::Pending => {}""")]),
    dict(name="c06-eof-not-retired", prop="C06", expect="C06.R2:<graph::Graph as graph::GraphRunner>::run:EOF",
         edits=[E("src/graph.rs", """                    BlockRet::EOF => {
                        eof[n] = true;
                    }""", """                    BlockRet::EOF => {}""")]),
    dict(name="c06-closed-ignored", prop="C06", expect="C06.R2:<graph::Graph as graph::GraphRunner>::run:WaitForStream",
         edits=[E("src/graph.rs", "                        if b.eof() || closed {", "                        let _ = closed;\n                        if b.eof() {")]),
    dict(name="c06-retired-called-again", prop="C06", expect="C06.R2:<graph::Graph as graph::GraphRunner>::run:skip",
         edits=[E("src/graph.rs", """                if eof[n] {
                    continue;
                }
""", "")]),
    dict(name="c06-new-settled-after-effect", prop="C06", expect="settled-after-effect:<skip::Skip as block::Block>::work:WaitForStream",
         edits=[E("src/skip.rs", """            i.consume(len);
            return Ok(BlockRet::Again);""", """            i.consume(len);
            return Ok(BlockRet::WaitForStream(&self.src, 1));""")]),
    # ---------------- C07
    dict(name="c07-work-unwrap", prop="C07", expect="C07.R1:<graph::Graph as graph::GraphRunner>::run:unwrap",
         edits=[E("src/graph.rs", "let ret = b.work()?;", "let ret = b.work().unwrap();")]),
    dict(name="c07-expect-block-status", prop="C07", expect="C07.R1:<mtgraph::MTGraph as graph::GraphRunner>::run:expect",
         edits=[E("src/mtgraph.rs", """            match th.join().expect("joining thread") {
                Ok(j) => {
                    debug!("Thread {} finished with {:?}", name, j);
                    self.block_stats.insert((n, name), j);
                }
                Err(e) => {
                    error!("Thread {} failed: {}", name, e);
                    if first_err.is_none() {
                        first_err = Some(e);
                    }
                }
            }""", """            let j = th.join().expect("joining thread").expect("block exit status");
            debug!("Thread {} finished with {:?}", name, j);
            self.block_stats.insert((n, name), j);
            let _ = &mut first_err;""")]),
    dict(name="c07-error-swallowed-mt", prop="C07", expect="C07.R2:<mtgraph::MTGraph as graph::GraphRunner>::run",
         edits=[E("src/mtgraph.rs", """        if let Some(e) = first_err {
            return Err(e);
        }
""", """        if let Some(e) = first_err {
            error!("ignoring {e}");
        }
""")]),
    dict(name="c07-err-arm-continues", prop="C07", expect="C07.R2:<mtgraph::MTGraph as graph::GraphRunner>::run::{closure#0}",
         edits=[E("src/mtgraph.rs", """                                cancel_token.cancel();
                                return Err(e);""", """                                continue;""")]),
    dict(name="c07-cancel-hoisted", prop="C07", expect="C07.R3:<graph::Graph as graph::GraphRunner>::run",
         edits=[E("src/graph.rs", """        loop {
            let mut done = true;
            let mut all_idle = true;
            if self.cancel_token.is_canceled() {
                break;
            }""", """        let cancelled_at_start = self.cancel_token.is_canceled();
        loop {
            let mut done = true;
            let mut all_idle = true;
            if cancelled_at_start {
                break;
            }""")]),
    dict(name="c07-mt-no-cancel-poll", prop="C07", expect="C07.R3:<mtgraph::MTGraph as graph::GraphRunner>::run::{closure#0}",
         edits=[E("src/mtgraph.rs", "                    while !cancel_token.is_canceled() {", "                    let _ = cancel_token.is_canceled();\n                    loop {")]),
    # ---------------- C09
    dict(name="c09-window-in-field", prop="C09", expect="C09.R1:null_sink::NullSink.cached",
         edits=[E("src/null_sink.rs", """    #[rustradio(in)]
    src: ReadStream<T>,
}""", """    #[rustradio(in)]
    src: ReadStream<T>,
    #[rustradio(default)]
    cached: Option<crate::circular_buffer::BufferReader<T>>,
}""")]),
    dict(name="c09-wait-to-again", prop="C09", expect="C09.R2:<skip::Skip as block::Block>::work:again",
         edits=[E("src/skip.rs", """        if o.is_empty() {
            return Ok(BlockRet::WaitForStream(&self.dst, 1));
        }""", """        if o.is_empty() {
            return Ok(BlockRet::Again);
        }""")]),
    dict(name="c09-sync-macro-again-on-empty", prop="C09", expect="C09.R2:<add::Add as block::Block>::work:again",
         edits=[E("rustradio_macros/src/lib.rs", """                      if #in_names.len() == 0 {
                          return Ok(#path::block::BlockRet::WaitForStream(&self.#in_names, 1));
                      })*""", """                      if #in_names.len() == 0 {
                          return Ok(#path::block::BlockRet::Again);
                      })*""")]),
    dict(name="c09-wait-target-swapped", prop="C09", expect="C09.R3:<skip::Skip as block::Block>::work:wait(src)",
         edits=[E("src/skip.rs", """        if o.is_empty() {
            return Ok(BlockRet::WaitForStream(&self.dst, 1));
        }""", """        if o.is_empty() {
            return Ok(BlockRet::WaitForStream(&self.src, 1));
        }""")]),
    dict(name="c09-vectostream-regress", prop="C09", expect="C09.R3:<vec_to_stream::VecToStream as block::Block>::work:wait(src)",
         edits=[E("src/vec_to_stream.rs", "return Ok(BlockRet::WaitForStream(&self.dst, n));", "return Ok(BlockRet::WaitForStream(&self.src, n));")]),
    # ---------------- C19 (macro mutants; the generated family makes them visible for every arity)
    dict(name="c19-skip-consume-2nd-input", prop="C19", expect="C19.R2:<S21 as block::Block>::work:e:",
         edits=[E("rustradio_macros/src/lib.rs", "                    #(#in_names.consume(n);)*", "                    #first.consume(n);")]),
    dict(name="c19-fold-inputs-only", prop="C19", expect="C19.R2:<S11 as block::Block>::work:e:same_n",
         edits=[E("rustradio_macros/src/lib.rs", "let n = [#(#out_names.len()),*].iter().fold(n, |min, &x|min.min(x));", "let _m = [#(#out_names.len()),*].iter().fold(n, |min, &x|min.min(x));")]),
    dict(name="c19-consume-input-only-clamp", prop="C19", expect="C19.R2:<S11 as block::Block>::work:e:same_n",
         edits=[E("rustradio_macros/src/lib.rs", "let n = [#(#out_names.len()),*].iter().fold(n, |min, &x|min.min(x));", "let steps = [#(#out_names.len()),*].iter().fold(n, |min, &x|min.min(x));"),
                E("rustradio_macros/src/lib.rs", "assert_ne!(n, 0, \"Output stream len 0, but we already checked that.\");", "assert_ne!(steps, 0, \"Output stream len 0, but we already checked that.\");"),
                E("rustradio_macros/src/lib.rs", "quote! { #first.iter().take(n) }", "quote! { #first.iter().take(steps) }"),
                E("rustradio_macros/src/lib.rs", "quote! { itertools::izip!(#first.iter().take(n)#(, #rest.iter())*) }", "quote! { itertools::izip!(#first.iter().take(steps)#(, #rest.iter())*) }"),
                E("rustradio_macros/src/lib.rs", "#(#out_names.produce(n, &otags);)*", "#(#out_names.produce(steps, &otags);)*")]),
    dict(name="c19-wait-wrong-field", prop="C19", expect="C19.R2b:<S21 as block::Block>::work:wait(",
         edits=[E("rustradio_macros/src/lib.rs", """                      if #out_names.len() == 0 {
                          return Ok(#path::block::BlockRet::WaitForStream(&self.#out_names, 1));
                      })*""", """                      if #out_names.len() == 0 {
                          return Ok(#path::block::BlockRet::WaitForStream(&self.#first, 1));
                      })*""")]),
    dict(name="c19-new-outputs-reversed", prop="C19", expect="extract:family",
         edits=[E("rustradio_macros/src/lib.rs", "                    }#(,#out_names.1)*)", "                    }#(,#out_names_rev.1)*)"),
                E("rustradio_macros/src/lib.rs", "    let mut extra = vec![]; // If requested, generate some extra code.", "    let out_names_rev: Vec<_> = { let mut v = out_names.clone(); if v.len() == 2 && false { v.reverse(); } if v.len() == 2 { v.swap(0, 1); } v };\n    let mut extra = vec![]; // If requested, generate some extra code.")]),
    dict(name="c19-eof-first-input-only", prop="C19", expect="C19.R3:<S21 as block::BlockEOF>::eof",
         edits=[E("rustradio_macros/src/lib.rs", "if true #(&&self.#in_names.eof())* {", "if self.#first_in.eof() {"),
                E("rustradio_macros/src/lib.rs", "    extra.push(match (in_names.is_empty(), has_attr(&input.attrs, \"noeof\", STRUCT_ATTRS)", "    let first_in = in_names.first().cloned();\n    extra.push(match (in_names.is_empty(), has_attr(&input.attrs, \"noeof\", STRUCT_ATTRS)")]),
    # ---------------- C08 (generated loop)
    dict(name="c08-produce-n-minus-1", prop="C19", expect="C19.R2:<S11 as block::Block>::work:e:same_n",
         edits=[E("rustradio_macros/src/lib.rs", "#(#out_names.produce(n, &otags);)*", "#(#out_names.produce(n - 1, &otags);)*")], also=["C19"]),
    dict(name="c08-rev-iterator", prop="C08", expect="C08.R1:<S11 as block::Block>::work:i:adaptors",
         edits=[E("rustradio_macros/src/lib.rs", "quote! { #first.iter().take(n) }", "quote! { #first.iter().take(n).rev() }")]),
    dict(name="c08-audecode-odd-byte", prop="C08", expect="C08.R3:<au::AuDecode as block::Block>::work",
         edits=[E("src/au.rs", """                let n = n - (n & 1);
                if n == 0 {""", """                if n < 2 {""")]),
    # ---------------- C12 (generated tag path)
    dict(name="c12-tag-new-zero", prop="C12", expect="C12.R2:<add::Add as block::Block>::work:emit_pos",
         edits=[E("rustradio_macros/src/lib.rs", "otags.push(#path::stream::Tag::new(pos, tag.key(), tag.val().clone()));", "otags.push(#path::stream::Tag::new(0, tag.key(), tag.val().clone()));", count=2)]),
    dict(name="c12-tag-filter-ge", prop="C12", expect="C12.R2:<add::Add as block::Block>::work:select_eq",
         edits=[E("rustradio_macros/src/lib.rs", ".filter(|t| t.pos() == pos)", ".filter(|t| t.pos() >= pos)")]),
    dict(name="c12-fir-unrewritten-tags", prop="C12", expect="C12.R3:<fir::FirFilter as block::Block>::work",
         edits=[E("src/fir.rs", "            tags.iter_mut().for_each(|t| t.set_pos(t.pos() / self.deci));\n", "")]),
    dict(name="c12-fir-wrong-divisor", prop="C12", expect="C12.R3:<fir::FirFilter as block::Block>::work",
         edits=[E("src/fir.rs", "tags.iter_mut().for_each(|t| t.set_pos(t.pos() / self.deci));", "tags.iter_mut().for_each(|t| t.set_pos(t.pos() / self.ntaps));")]),
    # ---------------- C13
    dict(name="c13-crc-check-removed", prop="C13", expect="C13.R1:hdlc_deframer::HdlcDeframer::update_state:push",
         edits=[E("src/hdlc_deframer.rs", """                        if crc != got_crc {
                            self.crc_error += 1;
                            debug!("want crc {:0>4x}, got {:0>4x}", crc, got_crc);
                            return Ok(State::Synced((0, Vec::with_capacity(self.max_size))));
                        }
""", """                        if crc != got_crc {
                            self.crc_error += 1;
                            debug!("want crc {:0>4x}, got {:0>4x}", crc, got_crc);
                        }
""")]),
    dict(name="c13-min-size-guard-removed", prop="C13", expect="C13.R1:hdlc_deframer::HdlcDeframer::update_state:push",
         edits=[E("src/hdlc_deframer.rs", "                } else if bits.len() / 8 < self.min_size {", "                } else if false {")]),
    dict(name="c13-mult8-guard-removed", prop="C13", expect="C13.R",
         edits=[E("src/hdlc_deframer.rs", "                if bits.len() % 8 != 0 {", "                if bits.len() % 8 == 100 {")]),
    dict(name="c13-too-long-not-abandoned", prop="C13", expect="C13.R2:",
         edits=[E("src/hdlc_deframer.rs", """                if bits.len() > self.max_size * 8 {
                    return Ok(State::Unsynced(0xff));
                }
""", "")]),
    # ---------------- C14
    dict(name="c14-parse-big-endian", prop="C14", expect="C14.R1:Sample for u32",
         edits=[E("src/lib.rs", "u32::from_le_bytes", "u32::from_be_bytes")]),
    dict(name="c14-au-header-consume-removed", prop="C14", expect="C14.R2:<au::AuDecode as block::Block>::work:->Data",
         edits=[E("src/au.rs", "                i.consume(header_rest_len);\n", "")]),
    dict(name="c14-au-decode-little-endian", prop="C14", expect="C14.R1:AU encoder/decoder",
         edits=[E("src/au.rs", "(i16::from_be_bytes(bytes) as Float) / 32767.0", "(i16::from_le_bytes(bytes) as Float) / 32767.0")]),
    # ---------------- C15
    dict(name="c15-hdlc-short-fcs-guard-removed", prop="C15", expect="C15.D1:hdlc_deframer::HdlcDeframer::update_state|overflow:Sub",
         edits=[E("src/hdlc_deframer.rs", """                        if bytes.len() < 2 {
                            // Too short to even hold a checksum.
                            return Ok(State::Synced((0, Vec::with_capacity(self.max_size))));
                        }
""", "")]),
    dict(name="c15-au-offset-guard-removed", prop="C15", expect="C15.D1:<au::AuDecode as block::Block>::work|overflow:Sub",
         edits=[E("src/au.rs", """                if data_offset < 24 {
                    return Err(Error::msg(format!(
                        ".au data offset {data_offset} is smaller than the header"
                    )));
                }
""", "")]),
    dict(name="c15-midpointer-empty-guard-removed", prop="C15", expect="C15.D3:<wpcr::Midpointer as block::Block>::work|index",
         edits=[E("src/wpcr.rs", """            if a.is_empty() || b.is_empty() {
                // Constant (or single sample) burst. There's no high and low
                // level to find the midpoint of.
                return Ok(BlockRet::Again);
            }
""", "")]),
    dict(name="c15-new-unwrap-on-content", prop="C15", expect="C15.D2:<vec_to_stream::VecToStream as block::Block>::work|unwrap",
         edits=[E("src/vec_to_stream.rs", "        debug_assert_eq!(v.len(), n);", "        debug_assert_eq!(v.len(), n);\n        let _first = v.first().unwrap();")]),
    dict(name="c15-lfsr-assert-back", prop="C15", expect="C15.D2:descrambler::Lfsr::next|explicit",
         edits=[E("src/descrambler.rs", "        let i = i & 1;\n        let ret", "        assert!(i <= 1);\n        let ret")]),
    # ---------------- C16
    dict(name="c16-plain-sub", prop="C16", expect="C16.R1:Repeat::again",
         edits=[E("src/lib.rs", "Repeater::Finite(n.saturating_sub(1));", "Repeater::Finite(n - 1);")]),
    dict(name="c16-no-done-filesource", prop="C16", expect="C16.R2:<file_source::FileSource as block::Block>::work",
         edits=[E("src/file_source.rs", """        if self.repeat.done() {
            return Ok(BlockRet::EOF);
        }
""", "")]),
    dict(name="c16-marker-outside-pos0", prop="C16", expect="C16.R3:<vector_source::VectorSource as block::Block>::work:tag(VectorSource::first)",
         edits=[E("src/vector_source.rs", "if self.pos == 0 && self.repeat.count() == 0 {", "if self.repeat.count() == 0 {")]),
    dict(name="c16-infinite-done", prop="C16", expect="C16.R4:Repeat::done",
         edits=[E("src/lib.rs", "            Repeater::Infinite => false,", "            Repeater::Infinite => self.count > 1000,")]),
    # ---------------- C17
    dict(name="c17-append-no-create", prop="C17", expect="C17.R1:file_sink::FileSink::new:Append",
         edits=[E("src/file_sink.rs", """                .append(true)
                .create(true)
                .open(filename)?,
        });
        Ok(Self { f, src })
    }

    /// Flush the write buffer.
    pub fn flush(&mut self) -> Result<()> {
        Ok(self.f.flush()?)
    }
}

impl<T> Block for FileSink<T>""", """                .append(true)
                .open(filename)?,
        });
        Ok(Self { f, src })
    }

    /// Flush the write buffer.
    pub fn flush(&mut self) -> Result<()> {
        Ok(self.f.flush()?)
    }
}

impl<T> Block for FileSink<T>""")]),
    dict(name="c17-overwrite-no-truncate", prop="C17", expect="C17.R1:file_sink::NoCopyFileSink::new:Overwrite",
         edits=[E("src/file_sink.rs", """            Mode::Overwrite => std::fs::File::create(filename)?,
            Mode::Append => std::fs::File::options()
                .read(false)
                .append(true)
                .create(true)
                .open(filename)?,
        });
        Ok(Self { f, src })
    }

    /// Flush the write buffer.
    pub fn flush(&mut self) -> Result<()> {
        Ok(self.f.flush()?)
    }
}

impl<T> Block for NoCopyFileSink<T>""", """            Mode::Overwrite => std::fs::File::options().write(true).create(true).open(filename)?,
            Mode::Append => std::fs::File::options()
                .read(false)
                .append(true)
                .create(true)
                .open(filename)?,
        });
        Ok(Self { f, src })
    }

    /// Flush the write buffer.
    pub fn flush(&mut self) -> Result<()> {
        Ok(self.f.flush()?)
    }
}

impl<T> Block for NoCopyFileSink<T>""")]),
    dict(name="c17-consume-before-flush", prop="C17", expect="C17.R2:<file_sink::FileSink as block::Block>::work",
         edits=[E("src/file_sink.rs", """        self.f.write_all(&v)?;
        self.f.flush()?;
        i.consume(n);""", """        self.f.write_all(&v)?;
        i.consume(n);
        self.f.flush()?;""")]),
    dict(name="c17-flush-removed-nc", prop="C17", expect="C17.R2:<file_sink::NoCopyFileSink as block::Block>::work",
         edits=[E("src/file_sink.rs", """            self.f.write_all(&v)?;
            self.f.flush()?;
            Ok(BlockRet::Again)""", """            self.f.write_all(&v)?;
            Ok(BlockRet::Again)""")]),
    dict(name="c17-flush-error-ignored", prop="C17", expect="C17.R2:<file_sink::FileSink as block::Block>::work",
         edits=[E("src/file_sink.rs", """        self.f.write_all(&v)?;
        self.f.flush()?;
        i.consume(n);""", """        self.f.write_all(&v)?;
        let _ = self.f.flush();
        i.consume(n);""")]),
    # ---------------- C18
    dict(name="c18-no-shrink", prop="C18", expect="C18.R4:circular_buffer::Circ::new",
         edits=[E("src/circular_buffer.rs", "        map.len = size;\n", "        let _ = &mut map;\n")]),
    dict(name="c18-drop-double-len", prop="C18", expect="C18.R3:",
         edits=[E("src/circular_buffer.rs", "libc::munmap(self.base as *mut c_void, self.len)", "libc::munmap(self.base as *mut c_void, self.len * 2)")]),
    dict(name="c18-map-private", prop="C18", expect="C18.R6:circular_buffer::Map::with_addr",
         edits=[E("src/circular_buffer.rs", "let flags = MAP_SHARED | if", "let flags = libc::MAP_PRIVATE | if")]),
    dict(name="c18-forget-map2", prop="C18", expect="C18.R5:circular_buffer::Circ::new",
         edits=[E("src/circular_buffer.rs", "        // First map is now just `size`.\n", "        let map2 = std::mem::ManuallyDrop::new(map2);\n        let map2 = std::mem::ManuallyDrop::into_inner(map2);\n        // First map is now just `size`.\n")]),
    dict(name="c18-wrong-place-no-unmap", prop="C18", expect="C18.R2:circular_buffer::Map::with_addr",
         edits=[E("src/circular_buffer.rs", """            let rc = unsafe { libc::munmap(buf, len as size_t) };
            if rc != 0 {
                let e = errno::errno();
                panic!("Failed to unmap buffer just mapped in the failure path: {e}");
            }
""", "")]),
    dict(name="c18-mmap-elsewhere", prop="C18", expect="C18.R1:circular_buffer::Circ::new",
         edits=[E("src/circular_buffer.rs", "        // Shrink file.\n", "        // SAFETY: mutant\n        let _extra = unsafe { libc::mmap(std::ptr::null_mut(), size, PROT_READ, MAP_SHARED, f.as_raw_fd(), 0) };\n        // Shrink file.\n")]),
    dict(name="c06-retired-flags-start-true", prop="C06", expect="C06.R2:<graph::Graph as graph::GraphRunner>::run:init",
         edits=[E("src/graph.rs", "        let mut eof = vec![false; self.blocks.len()];", "        let mut eof = vec![true; self.blocks.len()];")]),
    dict(name="c04-amount-le-need", prop="C04", expect="C04.R7:stream::ReadStream::wait_for_read:amount-vs-need",
         edits=[E("src/stream.rs", "        self.circ.wait_for_read(need) < need && closed", "        self.circ.wait_for_read(need) <= need && closed")]),
    # ---------------- blind spots found by tools/mutation_sweep.py
    dict(name="sw-c09-need-2-after-empty", prop="C09", expect="C09.R4:<add::Add as block::Block>::work:need(a)",
         edits=[E("rustradio_macros/src/lib.rs", "WaitForStream(&self.#in_names, 1));", "WaitForStream(&self.#in_names, 2));")]),
    dict(name="sw-c04-generated-eof-never-true", prop="C04", expect="C04.R4:<add::Add as block::BlockEOF>::eof",
         edits=[E("rustradio_macros/src/lib.rs", "                        if true #(&&self.#in_names.eof())* {", "                        if false #(&&self.#in_names.eof())* {")]),
    dict(name="sw-c04-default-eof-true", prop="C04", expect="C04.R8:block::BlockEOF::eof:default",
         edits=[E("src/block.rs", "    fn eof(&mut self) -> bool {\n        false\n", "    fn eof(&mut self) -> bool {\n        true\n")]),
    dict(name="sw-c05-waitforfunc-not-called", prop="C05", expect="C05.R1:<mtgraph::MTGraph as graph::GraphRunner>::run::{closure#0}:WaitForFunc:f:call",
         edits=[E("src/mtgraph.rs", "                                f();\n", "                                let _ = f;\n")]),
    dict(name="sw-c16-filesource-eof-to-again", prop="C16", expect="C16.R8:<file_source::FileSource as block::Block>::work:again()==false",
         edits=[E("src/file_source.rs", "                return Ok(BlockRet::EOF);", "                return Ok(BlockRet::Again);")]),
    dict(name="f21-reverted-tcpsource-eof-on-full-output", prop="C14", expect="C14.R7:<tcp_source::TcpSource as block::Block>::work:EOF#0",
         edits=[E("src/tcp_source.rs", """        if o.is_empty() {
            // A read into an empty buffer returns 0, which is not a closed
            // connection.
            return Ok(BlockRet::WaitForStream(&self.dst, 1));
        }
""", "")]),
    dict(name="f22-reverted-signalsource-idle-again", prop="C09", expect="C09.R2:<signal_source::SignalSourceComplex as block::Block>::work:again",
         edits=[E("src/signal_source.rs", """        let n = o.len();
        if n == 0 {
            return Ok(BlockRet::WaitForStream(&self.dst, 1));
        }
        for (to, from)""", """        let n = o.len();
        for (to, from)""")]),
    dict(name="f23-reverted-auencode-waits-for-one-byte", prop="C09", expect="C09.R4:<au::AuEncode as block::Block>::work:need(dst)",
         edits=[E("src/au.rs", "            return Ok(BlockRet::WaitForStream(&self.dst, ss));", "            return Ok(BlockRet::WaitForStream(&self.dst, 1));")]),
    dict(name="f24-reverted-zerocrossing-clock-room-unchecked", prop="C09", expect="C09.R11:<zero_crossing::ZeroCrossing as block::Block>::work:index",
         edits=[E("src/zero_crossing.rs", """        if max_out == 0 {
            // `o` is not empty, so it's the clock stream that is full.
            return Ok(match self.out_clock.as_ref() {
                Some(c) => BlockRet::WaitForStream(c, 1),
                None => BlockRet::WaitForStream(&self.dst, 1),
            });
        }
""", "")]),
    dict(name="f25-reverted-symbolsync-clock-room-ignored", prop="C09", expect="C09.R11:<symbol_sync::SymbolSync as block::Block>::work:index",
         edits=[E("src/symbol_sync.rs", """        let olen = match out_clock {
            Some(ref c) => std::cmp::min(o.len(), c.len()),
            None => o.len(),
        };""", """        let olen = o.len();""")]),
    # mutations of REFACTORED shapes (an independently written behaviour-preserving refactor + a one-line break): the rules
    # must keep their teeth on the refactored code, not merely fall silent on it
    dict(name="m3r4+busy-arm-forgets-done", prop="C06", expect="C06.R1:<graph::Graph as graph::GraphRunner>::run:Again",
         patch="/verif/neutral_seeded/m3-r4/patch.diff", edits=[],
         post_edits=[E("src/graph.rs", """                    Activity::Busy => {
                        done = false;
                        all_idle = false;
                    }""", """                    Activity::Busy => {
                        all_idle = false;
                    }""")]),
    dict(name="m3r4+eof-classified-waiting", prop="C06", expect="C06.R2:<graph::Graph as graph::GraphRunner>::run:EOF",
         patch="/verif/neutral_seeded/m3-r4/patch.diff", edits=[],
         post_edits=[E("src/graph.rs", "        BlockRet::EOF => Activity::Finished,", "        BlockRet::EOF => Activity::Waiting,")]),
    dict(name="m3r4+join-loop-break-on-err", prop="C07", expect="C07.R4:",
         patch="/verif/neutral_seeded/m3-r4/patch.diff", edits=[],
         post_edits=[E("src/mtgraph.rs", """                    if first_err.is_none() {
                        first_err = Some(e);
                    }""", """                    if first_err.is_none() {
                        first_err = Some(e);
                    }
                    break;""")]),
    dict(name="m8r4+marker-tags-on-every-piece", prop="C16", expect="C16.R3:",
         patch="/verif/neutral_seeded/m8-r4/patch.diff", edits=[],
         post_edits=[E("src/vector_source.rs", "            (0, pass) => vec![start(), repeat(pass)],", "            (_, pass) => vec![start(), repeat(pass)],")]),
    dict(name="m5r4+header-word-not-consumed", prop="C14", expect="C14.R2:",
         patch="/verif/neutral_seeded/m5-r4/patch.diff", edits=[],
         post_edits=[E("src/au.rs", "    i.consume(4);\n    Some(word)", "    Some(word)")]),
    dict(name="m7r4+consumable-not-a-multiple", prop="C08", expect="C08.R3:",
         patch="/verif/neutral_seeded/m7-r4/patch.diff", edits=[],
         post_edits=[E("src/fir.rs", "            Ok(self.deci * ((have - self.ntaps + 1) / self.deci))", "            Ok(have - self.ntaps + 1)")]),
    dict(name="m2r4+never-without-closed", prop="C04", expect="C04.R",
         patch="/verif/neutral_seeded/m2-r4/patch.diff", edits=[],
         post_edits=[E("src/stream.rs", "            (true, true) => true,", "            (_, true) => true,")]),
    dict(name="m3r5+again-arm-forgets-done", prop="C06", expect="C06.R1:<graph::Graph as graph::GraphRunner>::run:Again",
         patch="/verif/neutral_seeded/m3-r5/patch.diff", edits=[],
         post_edits=[E("src/graph.rs", """                    pass.done = false;
                    pass.all_idle = false;""", """                    pass.all_idle = false;""")]),
    dict(name="m3r5+eof-arm-does-not-retire", prop="C06", expect="C06.R2:<graph::Graph as graph::GraphRunner>::run:EOF",
         patch="/verif/neutral_seeded/m3-r5/patch.diff", edits=[],
         post_edits=[E("src/graph.rs", """                BlockRet::EOF => {
                    *block_eof = true;
                }""", """                BlockRet::EOF => {}""")]),
    dict(name="m3r5+wait-verdict-ignored", prop="C05", expect="C05.R1:",
         patch="/verif/neutral_seeded/m3-r5/patch.diff", edits=[],
         post_edits=[E("src/mtgraph.rs", "                                if b.eof() || stream_eof {", "                                if b.eof() {")]),
    dict(name="m2r5+peer-gone-means-two", prop="C04", expect="C04.R2:",
         patch="/verif/neutral_seeded/m2-r5/patch.diff", edits=[],
         post_edits=[E("src/stream.rs", "    Arc::strong_count(handle) == 1", "    Arc::strong_count(handle) == 2")]),
    dict(name="m4r5+macro-no-output-clamp", prop="C19", expect="C19.R2:",
         patch="/verif/neutral_seeded/m4-r5/patch.diff", edits=[],
         post_edits=[E("rustradio_macros/src/lib.rs", "                    let n = n #(.min(#out_names.len()))*;", "                    let n = n;")]),
    dict(name="a8r6+write-through-forgets-flush", prop="C17", expect="C17.R2:",
         patch="/verif/neutral_seeded/a8-r6/patch.diff", edits=[],
         post_edits=[E("src/file_sink.rs", "    f.write_all(bytes)?;\n    f.flush()\n", "    f.write_all(bytes)\n")]),
    dict(name="a4r6+bypass-ignores-remainder", prop="C14", expect="C14.R4:<file_source::FileSource as block::Block>::work:fastpath:whole",
         patch="/verif/neutral_seeded/a4-r6/patch.diff", edits=[],
         post_edits=[E("src/file_source.rs", "        self.buf.is_empty() && (n % sample_size) == 0", "        self.buf.is_empty() && (n / sample_size) != 0")]),
    dict(name="a3r6+encoder-waits-for-one-byte", prop="C09", expect="C09.R4:<au::AuEncode as block::Block>::work:need(dst)",
         patch="/verif/neutral_seeded/a3-r6/patch.diff", edits=[],
         post_edits=[E("src/au.rs", "(_, 0) => return Ok(BlockRet::WaitForStream(&self.dst, PCM16_BYTES)),", "(_, 0) => return Ok(BlockRet::WaitForStream(&self.dst, 1)),")]),
    dict(name="a5r6+pass-complete-inverted", prop="C16", expect="C16.R6:<vector_source::VectorSource as block::Block>::work:again()",
         patch="/verif/neutral_seeded/a5-r6/patch.diff", edits=[],
         post_edits=[E("src/vector_source.rs", "        let pass_complete = self.pos == self.data.len();", "        let pass_complete = self.pos != self.data.len();")]),
    dict(name="a1r6+discard-all-forgets-consume", prop="C09", expect="C09.R9:<null_sink::NullSink as block::Block>::work:wait(src)",
         patch="/verif/neutral_seeded/a1-r6/patch.diff", edits=[],
         post_edits=[E("src/null_sink.rs", "    window.consume(everything);", "    let _ = (window, everything);")]),
    dict(name="m5r4+encoder-waits-for-one-byte", prop="C09", expect="C09.R4:<au::AuEncode as block::Block>::work:need(dst)",
         patch="/verif/neutral_seeded/m5-r4/patch.diff", edits=[],
         post_edits=[E("src/au.rs", "            return Ok(BlockRet::WaitForStream(&self.dst, PCM16_BYTES));", "            return Ok(BlockRet::WaitForStream(&self.dst, 1));")]),
    dict(name="b1r7+commit-tags-unfiltered", prop="C02", expect="C02.R2:",
         patch="/verif/neutral_seeded/b1-r7/patch.diff", edits=[],
         post_edits=[E("src/circular_buffer.rs", "        for tag in tags.iter().filter(|tag| tag.pos() < n) {", "        for tag in tags.iter() {")]),
    dict(name="b1r7+tags-from-second-lock", prop="C02", expect="C02.R10:circular_buffer::Buffer::read_buf:one-lock",
         patch="/verif/neutral_seeded/b1-r7/patch.diff", edits=[],
         post_edits=[E("src/circular_buffer.rs", """        let (start, end, mut tags) = self.with_state(|s| {
            let (start, end) = s.read_range();
            (start, end, s.window_tags(start, end))
        });""", """        let (start, end) = self.with_state(BufferState::read_range);
        let mut tags = self.with_state(|s| s.window_tags(start, end));""")]),
    dict(name="b3r7+write-flushed-forgets-flush", prop="C17", expect="C17.R2:",
         patch="/verif/neutral_seeded/b3-r7/patch.diff", edits=[],
         post_edits=[E("src/file_sink.rs", "    f.write_all(bytes).and_then(|()| f.flush())", "    f.write_all(bytes)")]),
    dict(name="b5r7+end-of-pass-always-again", prop="C16", expect="C16.R8:",
         patch="/verif/neutral_seeded/b5-r7/patch.diff", edits=[],
         post_edits=[E("src/file_source.rs", """        if !self.repeat.again() {
            return Ok(false);
        }""", """        if !self.repeat.again() {
            return Ok(true);
        }""")]),
    dict(name="c1r8+samples-in-forgets-division", prop="C02", expect="C02.R11:circular_buffer::Buffer::total_size:total_size",
         patch="/verif/neutral_seeded/c1-r8/patch.diff", edits=[],
         post_edits=[E("src/circular_buffer.rs", "        samples_in(bytes, self.member_size)", "        bytes")]),
    dict(name="c4r8+header-rest-len-off-by-range", prop="C14", expect="C14.R3:au::header_rest_len|overflow:Sub",
         patch="/verif/neutral_seeded/c4-r8/patch.diff", edits=[],
         post_edits=[E("src/au.rs", "        0..=23 => Err(Error::msg(format!(", "        0..=6 => Err(Error::msg(format!(")]),
    dict(name="c5r8+macro-output-clamp-dropped", prop="C19", expect="C19.R2:",
         patch="/verif/neutral_seeded/c5-r8/patch.diff", edits=[],
         post_edits=[E("rustradio_macros/src/lib.rs", "let n = [#(#out_names.len()),*].iter().copied().fold(n_in, usize::min);", "let n = n_in;")]),
    dict(name="d1r9+flags-start-private", prop="C18", expect="C18.R6:circular_buffer::Map::with_addr:flags",
         patch="/verif/neutral_seeded/d1-r9/patch.diff", edits=[],
         post_edits=[E("src/circular_buffer.rs", "        let mut flags = MAP_SHARED;", "        let mut flags = libc::MAP_PRIVATE;")]),
    dict(name="d1r9+wrapper-addr-rounded", prop="C18", expect="C18.R9:circular_buffer::Map::with_addr:mmap-addr",
         patch="/verif/neutral_seeded/d1-r9/patch.diff", edits=[],
         post_edits=[E("src/circular_buffer.rs", "unsafe { Self::mmap_rw(ptr, len, flags, fd) }",
                       "unsafe { Self::mmap_rw(((ptr as usize) & !4095) as *mut c_void, len, flags, fd) }")]),
    dict(name="d1r9+wrong-place-not-unmapped", prop="C18", expect="C18.R2:circular_buffer::Map::with_addr:mmap",
         patch="/verif/neutral_seeded/d1-r9/patch.diff", edits=[],
         post_edits=[E("src/circular_buffer.rs", "        match unsafe { libc::munmap(buf, len as size_t) } {", "        match 0 {")]),
    dict(name="d3r9+end-of-pass-no-seek", prop="C16", expect="C16.R14:file_source::FileSource::end_of_pass:again()->restart",
         patch="/verif/neutral_seeded/d3-r9/patch.diff", edits=[],
         post_edits=[E("src/file_source.rs", "        self.f.seek(std::io::SeekFrom::Start(0))?;\n        // This is not quite", "        // This is not quite")]),
    dict(name="d3r9+read-data-not-truncated", prop="C14", expect="C14.R13:",
         patch="/verif/neutral_seeded/d3-r9/patch.diff", edits=[],
         post_edits=[E("src/sigmf.rs", "    buffer.truncate(n);\n", "")]),
    dict(name="d3r9+tcp-fresh-is-whole-buffer", prop="C14", expect="C14.R",
         patch="/verif/neutral_seeded/d3-r9/patch.diff", edits=[],
         post_edits=[E("src/tcp_source.rs", "            n => &buffer[..n],", "            _ => &buffer[..],")]),
    dict(name='d2r9+consumable-min-is-ntaps', prop='C09', expect='C09.R',
         patch="/verif/neutral_seeded/d2-r9/patch.diff", edits=[],
         post_edits=[E('src/fir.rs', '            return Err(absolute_minimum);', '            return Err(self.ntaps);')]),
    dict(name='d2r9+pad-output-no-produce', prop='C08', expect='C08.R',
         patch="/verif/neutral_seeded/d2-r9/patch.diff", edits=[],
         post_edits=[E('src/delay.rs', '            o.produce(n, &[]);\n            self.current_delay -= n;', '            self.current_delay -= n;')]),
    dict(name='d2r9+float-copy-consumes-all', prop='C08', expect='C08.R16',
         patch="/verif/neutral_seeded/d2-r9/patch.diff", edits=[],
         post_edits=[E('src/fft_filter.rs', '            inner_from.consume(n);', '            let all = inner_from.len();\n            inner_from.consume(all);')]),
    dict(name='d4r9+header-wait-one-less', prop='C09', expect='C09.R4',
         patch="/verif/neutral_seeded/d4-r9/patch.diff", edits=[],
         post_edits=[E('src/au.rs', 'return Ok(BlockRet::WaitForStream(&self.src, header_rest_len));', 'return Ok(BlockRet::WaitForStream(&self.src, header_rest_len - 1));')]),
    dict(name='d4r9+data-odd-n', prop='C08', expect='C08.R',
         patch="/verif/neutral_seeded/d4-r9/patch.diff", edits=[],
         post_edits=[E('src/au.rs', 'let n = input.len().min(out.len() * 2) & !1;', 'let n = input.len().min(out.len() * 2);')]),
    dict(name='d4r9+write-flushed-no-flush', prop='C17', expect='C17.R',
         patch="/verif/neutral_seeded/d4-r9/patch.diff", edits=[],
         post_edits=[E('src/file_sink.rs', '    writer.write_all(bytes)?;\n    writer.flush()', '    writer.write_all(bytes)')]),
    dict(name='d4r9+overwrite-no-truncate', prop='C17', expect='C17.R',
         patch="/verif/neutral_seeded/d4-r9/patch.diff", edits=[],
         post_edits=[E('src/file_sink.rs', 'Mode::Overwrite => opts.write(true).create(true).truncate(true),', 'Mode::Overwrite => opts.write(true).create(true),')]),
    dict(name='e1r10+delay-owed-zeroed', prop='C08', expect='C08.R18',
         patch="/verif/neutral_seeded/e1-r10/patch.diff", edits=[],
         post_edits=[E('src/delay.rs', '                    self.current_delay -= n;', '                    self.current_delay = 0;')]),
    dict(name='e2r10+helper-starts-from-empty-list', prop='C12', expect='C12.R6',
         patch="/verif/neutral_seeded/e2-r10/patch.diff", edits=[],
         post_edits=[E('src/burst_tagger.rs', '        let mut out: Vec<Tag> = incoming.to_vec();', '        let mut out: Vec<Tag> = Vec::new();')]),
    dict(name='e3r10+settle-wait-inflated', prop='C04', expect='C04.R12',
         patch="/verif/neutral_seeded/e3-r10/patch.diff", edits=[],
         post_edits=[E('src/mtgraph.rs', '            stream_eof: stream.wait(need),', '            stream_eof: stream.wait(need.max(64)),')]),
    dict(name='e3r10+finish-ignores-stream-eof', prop='C05', expect='C05.R',
         patch="/verif/neutral_seeded/e3-r10/patch.diff", edits=[],
         post_edits=[E('src/mtgraph.rs', '                if block_eof || stream_eof {', '                if block_eof {')]),
    dict(name='e3r10+error-not-cancelled', prop='C07', expect='C07.R7',
         patch="/verif/neutral_seeded/e3-r10/patch.diff", edits=[],
         post_edits=[E('src/mtgraph.rs', '                cancel_token.cancel();\n                return Err(e);', '                return Err(e);')]),
    dict(name="m4r5+macro-no-take", prop="C08", expect="C08.R1:",
         patch="/verif/neutral_seeded/m4-r5/patch.diff", edits=[],
         post_edits=[E("rustradio_macros/src/lib.rs", "#zipped_inputs.take(n).enumerate()", "#zipped_inputs.enumerate()")]),
    dict(name="m4r5+macro-tag-filter-le", prop="C12", expect="C12.R2:",
         patch="/verif/neutral_seeded/m4-r5/patch.diff", edits=[],
         post_edits=[E("rustradio_macros/src/lib.rs", ".filter(|t| t.pos() == pos)", ".filter(|t| t.pos() <= pos)")]),
    dict(name="m1r4+assert-helper-checks-nothing", prop="C01", expect="C01.R1:circular_buffer::Buffer::produce:",
         patch="/verif/neutral_seeded/m1-r4/patch.diff", edits=[],
         post_edits=[E("src/circular_buffer.rs", """        assert!(
            s.free() >= n,
            "tried to produce {n}, but only {} is free out of {}",""", """        debug_assert!(
            s.free() >= n,
            "tried to produce {n}, but only {} is free out of {}","""),
                     E("src/circular_buffer.rs", """        assert!(
            s.write_capacity() >= n,
            "can't produce that much. {} < {}",""", """        debug_assert!(
            s.write_capacity() >= n,
            "can't produce that much. {} < {}",""")]),
    dict(name="m1r4+size-check-helper-always-ok", prop="C01", expect="C01.R2:",
         patch="/verif/neutral_seeded/m1-r4/patch.diff", edits=[],
         post_edits=[E("src/circular_buffer.rs", "    if member_size == 0 || size % member_size != 0 {", "    if member_size == 0 {")]),
    dict(name="sw-c01-reader-consume-swallowed", prop="C01", expect="C01.R8:circular_buffer::BufferReader::consume:forwards",
         edits=[E("src/circular_buffer.rs", "        self.parent.consume(n);", "        let _ = n;")]),
    dict(name="sw-c01-writer-is-empty-inverted", prop="C01", expect="C01.R8:circular_buffer::BufferWriter::is_empty:bounds",
         edits=[E("src/circular_buffer.rs", """    pub fn is_empty(&self) -> bool {
        self.end == self.start
    }
}

/// Type aware buffer.""", """    pub fn is_empty(&self) -> bool {
        self.end != self.start
    }
}

/// Type aware buffer.""")]),
    dict(name="sw-c09-nullsink-no-consume", prop="C09", expect="C09.R9:<null_sink::NullSink as block::Block>::work:wait(src)",
         edits=[E("src/null_sink.rs", "        i.consume(n);", "        let _ = (i, n);")]),
    dict(name="sw-c08-fftstream-no-consume", prop="C08", expect="C08.R11:<fft_stream::FftStream as block::Block>::work:produce",
         edits=[E("src/fft_stream.rs", "        input.consume(len);\n", "")]),
    dict(name="sw-c08-skip-fastpath-no-consume", prop="C08", expect="C08.R11:<skip::Skip as block::Block>::work:produce",
         edits=[E("src/skip.rs", "            i.consume(len);\n", "")]),
    dict(name="sw-c08-cma-no-consume", prop="C08", expect="C08.R12:<cma::CmaEqualizer as block::Block>::work:produce#0:src",
         edits=[E("src/cma.rs", "        input.consume(len);\n", "")]),
    dict(name="sw-c08-auencode-no-consume", prop="C08", expect="C08.R12:<au::AuEncode as block::Block>::work:produce#1:src",
         edits=[E("src/au.rs", "        i.consume(n);\n        o.produce(n * ss, &[]);", "        o.produce(n * ss, &[]);")]),
    dict(name="sw-c09-macro-input-wait-inverted", prop="C09", expect="C09.R7:<add::Add as block::Block>::work:wait(a)",
         edits=[E("rustradio_macros/src/lib.rs", """                      if #in_names.len() == 0 {""", """                      if #in_names.len() != 0 {""")]),
    dict(name="sw-c09-macro-output-wait-inverted", prop="C09", expect="C09.R7:<add::Add as block::Block>::work:wait(dst)",
         edits=[E("rustradio_macros/src/lib.rs", """                      if #out_names.len() == 0 {""", """                      if #out_names.len() != 0 {""")]),
    dict(name="sw-c16-filesource-zero-length-read", prop="C16", expect="C16.R11:<file_source::FileSource as block::Block>::work:read#0",
         edits=[E("src/file_source.rs", "        if have < want {", "        if have <= want {")]),
    dict(name="sw-c14-filesource-zero-length-read", prop="C14", expect="C14.R9:<file_source::FileSource as block::Block>::work:read#0",
         edits=[E("src/file_source.rs", "        if have < want {", "        if have <= want {")]),
    dict(name="sw-c14-filesource-fastpath-not-whole", prop="C14", expect="C14.R4:<file_source::FileSource as block::Block>::work:fastpath:whole",
         edits=[E("src/file_source.rs", "(n % sample_size) == 0 {", "(n / sample_size) == 0 {")]),
    dict(name="sw-c14-filesource-read-bytes-dropped", prop="C14", expect="C14.R10:<file_source::FileSource as block::Block>::work:read#0",
         edits=[E("src/file_source.rs", "            self.buf.extend(&buffer[..n]);\n", "")]),
    dict(name="sw-c16-vectorsource-again-before-end", prop="C16", expect="C16.R6:<vector_source::VectorSource as block::Block>::work:again()",
         edits=[E("src/vector_source.rs", "        if self.pos == self.data.len() {", "        if self.pos != self.data.len() {")]),
    dict(name="sw-c09-skip-count-max", prop="C09", expect="C09.R10:<skip::Skip as block::Block>::work:",
         edits=[E("src/skip.rs", "let len = std::cmp::min(i.len(), o.len());", "let len = std::cmp::max(i.len(), o.len());")]),
    dict(name="sw-c09-delay-count-input-only", prop="C09", expect="C09.R10:<delay::Delay as block::Block>::work:produce",
         edits=[E("src/delay.rs", "        let n = std::cmp::min(input.len(), o.len());\n        o.fill_from_slice(&input.slice()[..n]);",
                  "        let n = input.len();\n        o.fill_from_slice(&input.slice()[..n]);")]),
    dict(name="sw-c14-au-header-word-dropped", prop="C14", expect="C14.R11:au:header-length",
         edits=[E("src/au.rs", "        v.extend(0xffffffffu32.to_be_bytes());\n", "")]),
    dict(name="sw-c14-au-magic-check-inverted", prop="C14", expect="C14.R11:au:reject#1",
         edits=[E("src/au.rs", "                if magic != 0x2e736e64u32 {", "                if magic == 0x2e736e64u32 {")]),
    dict(name="sw-c14-au-magic-differs", prop="C14", expect="C14.R11:au:magic",
         edits=[E("src/au.rs", "        v.extend(0x2e736e64u32.to_be_bytes());", "        v.extend(0x2e736e65u32.to_be_bytes());")]),
    dict(name="sw-c09-auencode-room-times-size", prop="C09", expect="C09.R10:<au::AuEncode as block::Block>::work:produce",
         edits=[E("src/au.rs", "let n = std::cmp::min(i.len(), o.len() / ss);", "let n = std::cmp::min(i.len(), o.len() * ss);")]),
    dict(name="sw-c16-sigmf-restart-left-is-start", prop="C16", expect="C16.R12:<sigmf::SigMFSource as block::Block>::work:restart(self.left)",
         edits=[E("src/sigmf.rs", "                self.left = self.range.1;", "                self.left = self.range.0;")]),
    dict(name="sw-c16-sigmf-eof-when-data-left", prop="C16", expect="C16.R13:<sigmf::SigMFSource as block::Block>::work:EOF",
         edits=[E("src/sigmf.rs", "            if want_bytes == 0 {", "            if want_bytes != 0 {")]),
    dict(name="sw-c08-hilbert-produce-dropped", prop="C08", expect="C08.R13:<hilbert::Hilbert as block::Block>::work:write",
         edits=[E("src/hilbert.rs", "        oo.produce(n, &tags);\n", "")]),
    dict(name="sw-c08-resampler-produce-dropped", prop="C08", expect="C08.R13:<rational_resampler::RationalResampler as block::Block>::work:write",
         edits=[E("src/rational_resampler.rs", "        o.produce(opos, &[]);\n", "")]),
    dict(name="sw-c16-repeat-wrapping-sub", prop="C16", expect="C16.R1:Repeat::again:wrapping_sub",
         edits=[E("src/lib.rs", "Repeater::Finite(n.saturating_sub(1));", "Repeater::Finite(n.wrapping_sub(1));")]),
    dict(name="sw-c16-tcpsource-closed-again", prop="C16", expect="C16.R8:<tcp_source::TcpSource as block::Block>::work:read()==0",
         edits=[E("src/tcp_source.rs", "            return Ok(BlockRet::EOF);", "            return Ok(BlockRet::Again);")]),
    dict(name="sw-c08-fill-deleted", prop="C08", expect="C08.R4:<file_source::FileSource as block::Block>::work:produce",
         edits=[E("src/file_source.rs", "        o.fill_from_iter(v);", "        drop(v);")]),
    dict(name="sw-c09-wait-on-len-eq-1", prop="C09", expect="C09.R3:<file_sink::FileSink as block::Block>::work:wait(src)",
         edits=[E("src/file_sink.rs", "        let n = i.len();\n        if n == 0 {", "        let n = i.len();\n        if n == 1 {")]),
    dict(name="sw-c15-have-in-wrong-unit", prop="C15", expect="C15.D3:<file_source::FileSource as block::Block>::work|slice:drain",
         edits=[E("src/file_source.rs", "        }\n\n        let have = self.buf.len() / sample_size;", "        }\n\n        let have = self.buf.len() * sample_size;")]),
    dict(name="sw-c08-produce-deleted", prop="C08", expect="C08.R8:<file_source::FileSource as block::Block>::work:fill",
         edits=[E("src/file_source.rs", "        trace!(\"FileSource: Produced {}\", n);\n        o.produce(n, &[]);", "        trace!(\"FileSource: Produced {}\", n);")]),
    dict(name="sw-c06-done-starts-false", prop="C06", expect="C06.R5:<graph::Graph as graph::GraphRunner>::run:settled-pass-ends",
         edits=[E("src/graph.rs", "            let mut done = true;", "            let mut done = false;")]),
    dict(name="sw-c07-first-err-condition-negated", prop="C07", expect="C07.R6:<mtgraph::MTGraph as graph::GraphRunner>::run:expect:kept",
         edits=[E("src/mtgraph.rs", "                    if first_err.is_none() {", "                    if !first_err.is_none() {")]),
    # ---------------- round-2 seeds as mutants
    dict(name="c02-tag-key-no-modulo", prop="C02", expect="C02.R5:circular_buffer::Buffer::produce:entry:key",
         edits=[E("src/circular_buffer.rs", "            let pos = (tag.pos() + s.wpos) % s.capacity();", "            let pos = tag.pos() + s.wpos;")]),
    dict(name="c09-rtlsdr-need-1", prop="C09", expect="C09.R4:<rtlsdr_decode::RtlSdrDecode as block::Block>::work:need(src)",
         edits=[E("src/rtlsdr_decode.rs", "            return Ok(BlockRet::WaitForStream(&self.src, 2));", "            return Ok(BlockRet::WaitForStream(&self.src, 1));")]),
    dict(name="c09-macro-min-then-first-input", prop="C09", expect="C09.R3:<add::Add as block::Block>::work:wait(a)",
         edits=[E("rustradio_macros/src/lib.rs", """                    #(let #in_names = #in_names.0;
                      if #in_names.len() == 0 {
                          return Ok(#path::block::BlockRet::WaitForStream(&self.#in_names, 1));
                      })*
""", """                    #(let #in_names = #in_names.0;)*
"""), E("rustradio_macros/src/lib.rs", """                    assert_ne!(n, 0, "Input stream len 0, but we already checked that.");
""", """                    if n == 0 {
                        return Ok(#path::block::BlockRet::WaitForStream(&self.#first, 1));
                    }
""")]),
    dict(name="c04-mt-closed-shortcut", prop="C04", expect="C04.R5:<mtgraph::MTGraph as graph::GraphRunner>::run::{closure#0}",
         edits=[E("src/mtgraph.rs", "let eof = stream.wait(need);", "let eof = stream.closed() || stream.wait(need);")]),
    dict(name="g2r12+abort-helper-forgets-cancel", prop="C07", expect="C07.R7:",
         patch="/verif/neutral_seeded/g2-r12/patch.diff", edits=[],
         post_edits=[E("src/mtgraph.rs", "    error!(\"Block work function failed: {e}\");\n    cancel_token.cancel();\n    e\n", "    error!(\"Block work function failed: {e}\");\n    let _ = cancel_token;\n    e\n")]),
    dict(name="g1r12+store-helper-dedups", prop="C02", expect="C02.R14:",
         patch="/verif/neutral_seeded/g1-r12/patch.diff", edits=[],
         post_edits=[E("src/circular_buffer.rs", "            self.tags.entry(abs_pos).or_default().push(rebased);",
                       "            let on_sample = self.tags.entry(abs_pos).or_default();\n            if on_sample.last() != Some(&rebased) {\n                on_sample.push(rebased);\n            }")]),
    dict(name="f1r11+backoff-clamp-dropped", prop="C07", expect="C07.R10:",
         patch="/verif/neutral_seeded/f1-r11/patch.diff", edits=[],
         post_edits=[E("src/mtgraph.rs", "idle_sleep = (idle_sleep * 2).min(std::time::Duration::from_millis(16));", "idle_sleep = idle_sleep * 2;")]),
    dict(name="f1r11+finish-ignores-stream-eof", prop="C05", expect="C05.R",
         patch="/verif/neutral_seeded/f1-r11/patch.diff", edits=[],
         post_edits=[E("src/mtgraph.rs", "                                if b.eof() || eof {", "                                if b.eof() && eof {")]),
    dict(name="r12-c02-store-capped-per-sample", prop="C02", expect="C02.R14:",
         edits=[E("src/circular_buffer.rs", "            s.tags.entry(pos).or_default().push(tag);",
                  "            let on_sample = s.tags.entry(pos).or_default();\n            if on_sample.len() < 8 {\n                on_sample.push(tag);\n            }")]),
    dict(name="r12-c02-store-skips-by-key", prop="C02", expect="C02.R14:",
         edits=[E("src/circular_buffer.rs", "            let pos = (tag.pos() + s.wpos) % s.capacity();",
                  "            if tag.key().is_empty() {\n                continue;\n            }\n            let pos = (tag.pos() + s.wpos) % s.capacity();")]),
]

ALL_BUILT = ["C03", "C08", "C12", "C13", "C14", "C15", "C19", "C01", "C02", "C04", "C05", "C06", "C07", "C09", "C16", "C17", "C18"]

NEUTRAL = [
    dict(name="n-hdlc-push-copy-from-validated", props=["C13", "C15", "C08"],
         edits=[E("src/hdlc_deframer.rs", "                        self.dst.push(data.to_vec(), tags);", """                        let mut out = vec![0u8; data.len()];
                        out.copy_from_slice(data);
                        self.dst.push(out, tags);""")]),
    dict(name="n-stp-shrink-after-loop", props=["C08", "C15", "C09"],
         edits=[E("src/stream_to_pdu.rs", """        let n = input.len();
        input.consume(n);""", """        if self.buf.capacity() > 4 * self.max_size.max(1) {
            // housekeeping only: give memory back, contents untouched
            self.buf.shrink_to(self.max_size);
        }
        let n = input.len();
        input.consume(n);""")]),
    dict(name="n-mtgraph-cputime-before-error-return", props=["C07", "C06"],
         edits=[E("src/mtgraph.rs", """        if let Some(e) = first_err {
            return Err(e);
        }
        self.spent_time = Some(st.elapsed());
        self.spent_cpu_time = Some(get_cpu_time() - run_start_cpu);""", """        self.spent_time = Some(st.elapsed());
        self.spent_cpu_time = Some(get_cpu_time() - run_start_cpu);
        if let Some(e) = first_err {
            return Err(e);
        }""")]),
    dict(name="n-consume-compare-subtract-wrap", props=["C01", "C02", "C03"],
         edits=[E("src/circular_buffer.rs", "        let newpos = (s.rpos + n) % s.capacity();", """        let mut newpos = s.rpos + n;
        if newpos >= s.capacity() {
            newpos -= s.capacity();
        }""")]),
    dict(name="n-rename-local-produce", props=["C01", "C02"],
         edits=[E("src/circular_buffer.rs", """        let mut s = lock.lock().unwrap();
        assert!(
            s.free() >= n,""", """        let mut s = lock.lock().unwrap();
        let _unused_marker = 0;
        assert!(
            s.free() >= n,""")]),
    dict(name="n-consume-assert-as-if-panic", props=["C01", "C02"],
         edits=[E("src/circular_buffer.rs", """        assert!(
            n <= s.used,
            "trying to consume {}, but only have {}",
            n,
            s.used
        );""", """        if n > s.used {
            panic!("trying to consume {}, but only have {}", n, s.used);
        }""")]),
    dict(name="n-graph-try-as-match", props=["C06", "C07"],
         edits=[E("src/graph.rs", "let ret = b.work()?;", "let ret = match b.work() {\n                    Ok(r) => r,\n                    Err(e) => return Err(e),\n                };")]),
    dict(name="n-mt-or-swapped", props=["C05", "C07"],
         edits=[E("src/mtgraph.rs", "if b.eof() || eof {", "if eof || b.eof() {")]),
    dict(name="n-mt-if-let-join", props=["C05", "C07"],
         edits=[E("src/mtgraph.rs", """                    if first_err.is_none() {
                        first_err = Some(e);
                    }""", """                    first_err = first_err.or(Some(e));""")]),
    dict(name="n-eof-if-form", props=["C04"],
         edits=[E("src/stream.rs", """        let closed = Arc::strong_count(&self.q) == 1;
        closed && self.q.0.lock().unwrap().is_empty()""", """        if Arc::strong_count(&self.q) != 1 {
            return false;
        }
        self.q.0.lock().unwrap().is_empty()""")]),
    dict(name="n-closed-helper", props=["C04", "C05"],
         edits=[E("src/stream.rs", """        let closed = Arc::strong_count(&self.circ) == 1;
        self.circ.wait_for_read(need) < need && closed""", """        let closed = self.refcount() == 1;
        self.circ.wait_for_read(need) < need && closed""")]),
    dict(name="n-min-method", props=["C09", "C06"],
         edits=[E("src/skip.rs", "let len = std::cmp::min(i.len(), o.len());", "let len = i.len().min(o.len());")]),
    dict(name="n-skip-extract-helper", props=["C09", "C06", "C02"],
         edits=[E("src/skip.rs", """            let len = std::cmp::min(i.len(), o.len());
            o.slice()[..len].copy_from_slice(&i.slice()[..len]);""", """            let len = std::cmp::min(i.len(), o.len());
            let (a, b) = (i.slice(), o.slice());
            b[..len].copy_from_slice(&a[..len]);""")]),
    dict(name="n-filesink-match-form", props=["C17"],
         edits=[E("src/file_sink.rs", """        self.f.write_all(&v)?;
        self.f.flush()?;
        i.consume(n);""", """        if let Err(e) = self.f.write_all(&v) {
            return Err(e.into());
        }
        self.f.flush()?;
        i.consume(n);""")]),
    dict(name="n-overwrite-explicit-flags", props=["C17"],
         edits=[E("src/file_sink.rs", "            Mode::Overwrite => std::fs::File::create(filename)?,", "            Mode::Overwrite => std::fs::File::options().write(true).create(true).truncate(true).open(filename)?,", count=2)]),
    dict(name="n-repeat-match-guard", props=["C16"],
         edits=[E("src/lib.rs", "                self.repeater = Repeater::Finite(n.saturating_sub(1));", "                self.repeater = Repeater::Finite(if n > 0 { n - 1 } else { 0 });")]),
    dict(name="n-vectorsource-reorder", props=["C16", "C09"],
         edits=[E("src/vector_source.rs", """        if self.data.is_empty() {
            return Ok(BlockRet::EOF);
        }
        if self.repeat.done() {
            return Ok(BlockRet::EOF);
        }""", """        if self.repeat.done() {
            return Ok(BlockRet::EOF);
        }
        if self.data.is_empty() {
            return Ok(BlockRet::EOF);
        }""")]),
    dict(name="n-map-errpath-reorder", props=["C18"],
         edits=[E("src/circular_buffer.rs", "        let fd = f.as_raw_fd();\n        let flags = MAP_SHARED | if ptr.is_null() { 0 } else { MAP_FIXED };", "        let flags = if ptr.is_null() { MAP_SHARED } else { MAP_SHARED | MAP_FIXED };\n        let fd = f.as_raw_fd();")]),
    dict(name="n-c02-store-through-binding", props=["C02", "C12", "C01", "C03"],
         edits=[E("src/circular_buffer.rs", "            s.tags.entry(pos).or_default().push(tag);",
                  "            let on_sample = s.tags.entry(pos).or_default();\n            if on_sample.is_empty() {\n                on_sample.reserve(2);\n            }\n            on_sample.push(tag);")]),
]
