//! C15/C14/C13 demos: content-triggered panics and format defects (F13..F18).
use rustradio::block::{Block, BlockRet};
use rustradio::blocks::*;
use rustradio::stream::{new_nocopy_stream, new_stream, ReadStream, WriteStream};
use rustradio::Float;
use std::io::Write;

fn feed<T: Copy>(tx: &WriteStream<T>, data: &[T]) {
    let mut w = tx.write_buf().unwrap();
    w.slice()[..data.len()].copy_from_slice(data);
    w.produce(data.len(), &[]);
}
fn drain<T: Copy>(rx: &ReadStream<T>) -> Vec<T> {
    let (r, _) = rx.read_buf().unwrap();
    let v = r.slice().to_vec();
    let n = v.len();
    r.consume(n);
    v
}
fn no_panic<R>(what: &str, f: impl FnOnce() -> R) -> R {
    match std::panic::catch_unwind(std::panic::AssertUnwindSafe(f)) {
        Ok(r) => r,
        Err(_) => panic!("{what}: panicked on input content"),
    }
}

#[test]
fn f13_au_roundtrip_has_no_extra_samples() {
    let (tx, rx) = new_stream::<Float>();
    let (mut enc, enc_out) = AuEncode::new(rx, rustradio::au::Encoding::Pcm16, 44100, 1);
    let (mut dec, dec_out) = AuDecode::new(enc_out, 44100);
    let input: Vec<Float> = (0..50).map(|i| (i as Float) / 100.0).collect();
    feed(&tx, &input);
    for _ in 0..10 {
        enc.work().unwrap();
        dec.work().unwrap();
    }
    let out = drain(&dec_out);
    eprintln!("AU round trip: {} samples in, {} samples out", input.len(), out.len());
    assert_eq!(out.len(), input.len(), "decoder emitted extra/missing samples (header bytes decoded as audio?)");
}

#[test]
fn f13_au_malformed_header_is_an_error_not_a_panic() {
    for offset in [0u32, 4, 8, 12, 23] {
        let (tx, rx) = new_stream::<u8>();
        let (mut dec, _out) = AuDecode::new(rx, 44100);
        let mut bytes = vec![0x2e, 0x73, 0x6e, 0x64];
        bytes.extend(offset.to_be_bytes());
        bytes.extend([0u8; 40]);
        feed(&tx, &bytes);
        no_panic(&format!("AuDecode with data offset {offset}"), || {
            for _ in 0..6 {
                if dec.work().is_err() {
                    break;
                }
            }
        });
    }
}

#[test]
fn f14_hdlc_tiny_frames_with_small_min_size() {
    // back-to-back flags = a zero length frame; min_size 0 and checksum on.
    let bits: Vec<u8> = "0111111001111110011111100".chars().map(|c| (c == '1') as u8).collect();
    for min_size in [0usize, 1] {
        let (tx, rx) = new_stream::<u8>();
        let (mut d, _o) = HdlcDeframer::new(rx, min_size, 10);
        feed(&tx, &bits);
        no_panic(&format!("HdlcDeframer min_size={min_size}"), || d.work().map(|_| ()).unwrap_or(()));
    }
}

#[test]
fn f15_descrambler_non_binary_byte() {
    let (tx, rx) = new_stream::<u8>();
    let (mut d, _o) = Descrambler::new_g3ruh(rx);
    feed(&tx, &[0, 1, 1, 7, 0, 255]);
    no_panic("Descrambler", || d.work().map(|_| ()).unwrap_or(()));
}

#[test]
fn f16_wpcr_and_midpointer_tiny_bursts() {
    for burst in [vec![], vec![1.0 as Float], vec![0.5; 3], vec![1.0, -1.0, 1.0, -1.0], vec![1.0, -1.0, 1.0, -1.0, 1.0], vec![0.25; 6]] {
        let (tx, rx) = new_nocopy_stream::<Vec<Float>>();
        let (mut w, _o) = WpcrBuilder::new(rx).build();
        tx.push(burst.clone(), &[]);
        no_panic(&format!("Wpcr burst {burst:?}"), || w.work().map(|_| ()).unwrap_or(()));
        let (tx, rx) = new_nocopy_stream::<Vec<Float>>();
        let (mut m, _o) = Midpointer::new(rx);
        tx.push(burst.clone(), &[]);
        no_panic(&format!("Midpointer burst {burst:?}"), || m.work().map(|_| ()).unwrap_or(()));
    }
}

#[test]
fn f17_tcp_source_tiny_reads() {
    let listener = std::net::TcpListener::bind("[::1]:0").unwrap();
    let port = listener.local_addr().unwrap().port();
    let data: Vec<u8> = [1.0f32, 2.0, 3.0].iter().flat_map(|f| f.to_le_bytes()).collect();
    let d2 = data.clone();
    std::thread::spawn(move || {
        let (mut s, _) = listener.accept().unwrap();
        // 1 byte, then 1 byte (fewer than the 3 still missing from the first sample), then the rest
        for chunk in [&d2[0..1], &d2[1..2], &d2[2..]] {
            s.write_all(chunk).unwrap();
            s.flush().unwrap();
            std::thread::sleep(std::time::Duration::from_millis(60));
        }
    });
    let (mut src, out) = TcpSource::<Float>::new("[::1]", port).unwrap();
    let got = no_panic("TcpSource", || {
        let mut got = Vec::new();
        for _ in 0..10 {
            match src.work() {
                Ok(BlockRet::EOF) | Err(_) => break,
                _ => {}
            }
            got.extend(drain(&out));
            if got.len() >= 3 {
                break;
            }
        }
        got
    });
    assert_eq!(got, vec![1.0, 2.0, 3.0], "samples must be reassembled however the bytes are split");
}

#[test]
fn f18_sigmf_truncated_or_empty_data() {
    let d = tempfile::tempdir().unwrap();
    let base = d.path().join("rec");
    let mut meta = base.clone().into_os_string();
    meta.push(".sigmf-meta");
    rustradio::sigmf::write(&meta, 1000.0, 1.0).unwrap();
    let mut data = base.clone().into_os_string();
    data.push(".sigmf-data");
    // empty data member + infinite repeat
    std::fs::File::create(&data).unwrap();
    let (mut src, _out) = SigMFSourceBuilder::<u8>::new(base.with_extension("sigmf"))
        .repeat(rustradio::Repeat::infinite())
        .ignore_type_error()
        .build()
        .unwrap();
    no_panic("SigMFSource on an empty data file with infinite repeat", || {
        for _ in 0..3 {
            if !matches!(src.work(), Ok(BlockRet::Again) | Ok(BlockRet::WaitForStream(_, _))) {
                break;
            }
        }
    });
    // data file truncated after the source was opened
    std::fs::File::create(&data).unwrap().write_all(&[7u8; 64]).unwrap();
    let (mut src, _out) = SigMFSourceBuilder::<u8>::new(base.with_extension("sigmf")).ignore_type_error().build().unwrap();
    std::fs::OpenOptions::new().write(true).open(&data).unwrap().set_len(0).unwrap();
    no_panic("SigMFSource on a data file that was truncated", || {
        for _ in 0..3 {
            if !matches!(src.work(), Ok(BlockRet::Again) | Ok(BlockRet::WaitForStream(_, _))) {
                break;
            }
        }
    });
}
