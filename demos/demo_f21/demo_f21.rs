//! F21: TcpSource must not report EOF because its *output* is full.
//!
//! work() sizes its read buffer from the free output space.  With the output stream completely full that buffer is empty,
//! `read()` into an empty buffer returns Ok(0) at once, and the block takes that for "connection closed" and returns EOF -
//! with the peer still connected and more data on the way.  Under MTGraph (which calls work() again right after `Again`)
//! a sink that is slower than the network for one buffer's worth of data is enough; here the schedule is made explicit by
//! calling work() by hand and simply not reading the output.
use rustradio::block::{Block, BlockRet};
use rustradio::blocks::TcpSource;
use std::io::Write;
use std::net::TcpListener;

#[test]
fn full_output_is_not_end_of_stream() {
    let listener = TcpListener::bind("127.0.0.1:0").unwrap();
    let port = listener.local_addr().unwrap().port();
    let total: usize = 6_000_000; // more than one stream buffer (4_096_000 u8 samples)
    let sender = std::thread::spawn(move || {
        let (mut s, _) = listener.accept().unwrap();
        let chunk = vec![0x55u8; 65536];
        let mut sent = 0;
        while sent < total {
            let n = std::cmp::min(chunk.len(), total - sent);
            if s.write_all(&chunk[..n]).is_err() {
                return sent; // reader went away early
            }
            sent += n;
        }
        sent
    });
    let (mut src, out) = TcpSource::<u8>::new("127.0.0.1", port).unwrap();
    let mut got = 0usize;
    let mut eof_with_full_output = false;
    // Phase 1: never read the output.  The source fills it, and must then wait - not finish.
    for _ in 0..10_000 {
        match src.work().unwrap() {
            BlockRet::EOF => {
                eof_with_full_output = true;
                break;
            }
            BlockRet::WaitForStream(_, _) => break, // correct: output full, asks for room
            _ => {}
        }
    }
    assert!(
        !eof_with_full_output,
        "TcpSource reported EOF while the peer is connected and still sending: its output stream was full"
    );
    // Phase 2: drain and continue; everything the peer sent must arrive.
    loop {
        {
            let (i, _t) = out.read_buf().unwrap();
            let n = i.len();
            got += n;
            i.consume(n);
        }
        if let BlockRet::EOF = src.work().unwrap() {
            break;
        }
    }
    let (i, _t) = out.read_buf().unwrap();
    got += i.len();
    let sent = sender.join().unwrap();
    assert_eq!(sent, total);
    assert_eq!(got, total, "samples lost");
}
