//! C02/C12 F2: a pass-through block hands the whole read-window tag list to produce(n, ..) with
//! n < window length (little output space).  Tags of samples that were not committed are stored
//! anyway and stored again with the next window: the reader gets the tag twice.
use rustradio::block::Block;
use rustradio::blocks::Skip;
use rustradio::stream::{new_stream, Tag, TagValue};

#[test]
fn tag_forwarded_exactly_once_when_output_space_is_short() {
    let (tx, rx) = new_stream::<u8>();
    let (mut skip, out) = Skip::new(rx, 0);
    // Fill the output completely, then free 2 slots.
    let cap = {
        let mut w = tx.write_buf().unwrap();
        let n = w.len();
        w.slice().fill(0);
        w.produce(n, &[]);
        n
    };
    skip.work().unwrap();
    {
        let (r, _) = out.read_buf().unwrap();
        assert_eq!(r.len(), cap);
        r.consume(2);
    }
    // 5 input samples, tag on the 4th.
    {
        let mut w = tx.write_buf().unwrap();
        w.slice()[..5].copy_from_slice(&[1, 2, 3, 4, 5]);
        w.produce(5, &[Tag::new(3, "mark", TagValue::Bool(true))]);
    }
    skip.work().unwrap(); // room for 2: copies samples 1,2 and hands produce(2, [mark@3])
    let mut seen = Vec::new();
    loop {
        let (r, tags) = out.read_buf().unwrap();
        if r.is_empty() {
            if skip.work().is_err() || out.read_buf().unwrap().0.is_empty() {
                break;
            }
            continue;
        }
        for t in tags.iter().filter(|t| t.key() == "mark" && t.pos() < 1) {
            seen.push(r.slice()[t.pos()]);
        }
        r.consume(1); // consume one sample at a time, recording the sample every 'mark' sits on
        let _ = skip.work();
    }
    eprintln!("'mark' was reported on samples {:?}", seen);
    assert_eq!(seen, vec![4], "tag must arrive exactly once, on sample '4'");
}
