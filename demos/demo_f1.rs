//! C01/C18 F1: a stream whose element size does not divide the buffer must be refused at set-up.
use rustradio::circular_buffer::Buffer;
use std::sync::Arc;

#[test]
fn non_dividing_element_size_is_refused() {
    let r = Buffer::<[u8; 3]>::new(4096);
    if let Ok(b) = r {
        // Not refused: show what happens next. 4096 / 3 = 1365 elements, 1 byte left over, so an
        // element written across the wrap point lands partly outside the aliased region.
        let b = Arc::new(b);
        let res = std::panic::catch_unwind(std::panic::AssertUnwindSafe(|| {
            let mut w = b.clone().write_buf().unwrap();
            let n = w.len();
            for x in w.slice().iter_mut() { *x = [13u8; 3]; }
            w.produce(n, &[]);
            let (r, _) = b.clone().read_buf().unwrap();
            r.consume(n - 1);
            let mut w = b.clone().write_buf().unwrap();
            for x in w.slice().iter_mut().take(2) { *x = [14u8; 3]; }
            w.produce(2, &[]);
            let (r, _) = b.clone().read_buf().unwrap();
            r.slice().to_vec()
        }));
        match res {
            Err(_) => panic!("Buffer::<[u8;3]>::new(4096) was accepted and then panicked on use"),
            Ok(v) => panic!("Buffer::<[u8;3]>::new(4096) was accepted; reader then sees {:?} (committed [13;3],[14;3],[14;3])", v),
        }
    }
}
