//! F24 / F25: the clock-recovery blocks index their optional clock output with the symbol counter of the MAIN output.
//!
//! `ZeroCrossing` clamps the number of symbols per call to `min(dst room, clock room)` but never checks that this is non-zero:
//! with a full clock stream the first symbol is stored at `clock.slice()[0]` of an EMPTY window.  `SymbolSync` does not clamp to
//! the clock window at all.  In both cases `work()` panics ("index out of bounds") as soon as whoever reads the clock stream is
//! slower than whoever reads the symbols - a panic caused by nothing but the free space a peer happened to leave (C09: a work
//! call commits no more than its write window offered; C08: never a panic because of output space).
use rustradio::block::{Block, BlockRet};
use rustradio::blocks::{SymbolSync, ZeroCrossing};
use rustradio::stream::{new_stream, ReadStream, WriteStream};
use rustradio::Float;

/// Square wave, two samples per half period: a sign change every two samples.
fn feed(tx: &WriteStream<Float>, phase: &mut usize) {
    let mut w = tx.write_buf().unwrap();
    let n = w.len();
    for (i, s) in w.slice()[..n].iter_mut().enumerate() {
        *s = if ((*phase + i) / 2) % 2 == 0 { 1.0 } else { -1.0 };
    }
    *phase += n;
    w.produce(n, &[]);
}

fn drain(rx: &ReadStream<Float>) -> usize {
    let (r, _) = rx.read_buf().unwrap();
    let n = r.len();
    r.consume(n);
    n
}

/// Run `blk` with its symbol output drained after every call and its clock output never read, until the clock stream is full.
/// Returns Err(msg) if work() panicked.
fn run(name: &str, blk: &mut dyn Block, tx: &WriteStream<Float>, syms: &ReadStream<Float>, clock: &ReadStream<Float>) -> Result<(), String> {
    let mut phase = 0;
    for _ in 0..200 {
        feed(tx, &mut phase);
        let r = std::panic::catch_unwind(std::panic::AssertUnwindSafe(|| {
            for _ in 0..64 {
                match blk.work().unwrap() {
                    BlockRet::Again => {}
                    _ => break,
                }
                drain(syms);
            }
        }));
        if let Err(e) = r {
            let msg = e.downcast_ref::<String>().cloned().or_else(|| e.downcast_ref::<&str>().map(|s| s.to_string())).unwrap_or_default();
            return Err(format!("{name}: work() panicked with the clock stream full: {msg}"));
        }
        drain(syms);
        let clock_free = 1_024_000 - clock.read_buf().unwrap().0.len();
        if clock_free == 0 {
            // The clock stream is full and the block has been called with it full: it must have waited, not panicked.
            feed(tx, &mut phase);
            let r = std::panic::catch_unwind(std::panic::AssertUnwindSafe(|| blk.work().map(|_| ())));
            return match r {
                Ok(_) => Ok(()),
                Err(e) => {
                    let msg = e.downcast_ref::<String>().cloned().or_else(|| e.downcast_ref::<&str>().map(|s| s.to_string())).unwrap_or_default();
                    Err(format!("{name}: work() panicked with the clock stream full: {msg}"))
                }
            };
        }
    }
    panic!("{name}: clock stream never filled");
}

#[test]
fn zero_crossing_survives_a_full_clock_stream() {
    let (tx, rx) = new_stream::<Float>();
    let (mut blk, syms) = ZeroCrossing::new(rx, 2.0, 0.1);
    let clock = blk.out_clock();
    if let Err(m) = run("ZeroCrossing", &mut blk, &tx, &syms, &clock) {
        panic!("{m}");
    }
}

#[test]
fn symbol_sync_survives_a_full_clock_stream() {
    let (tx, rx) = new_stream::<Float>();
    let clock_filter = rustradio::iir_filter::IirFilter::new(&[1.0]);
    let (mut blk, syms) = SymbolSync::new(rx, 2.0, 0.1, Box::new(rustradio::symbol_sync::TedZeroCrossing::new()), Box::new(clock_filter));
    let clock = blk.out_clock().unwrap();
    if let Err(m) = run("SymbolSync", &mut blk, &tx, &syms, &clock) {
        panic!("{m}");
    }
}
