//! C06 known finding K1: Graph::run takes a pass in which every block reported a wait/EOF verdict
//! as quiescence, although blocks may have moved data in the very call that reported the verdict.
use rustradio::blocks::{VectorSink, VectorSource};
use rustradio::graph::{Graph, GraphRunner};

fn run(sink_first: bool) -> usize {
    let (src, out) = VectorSource::new(vec![1u8, 2, 3]);
    let sink = VectorSink::new(out, 100);
    let hook = sink.hook();
    let mut g = Graph::new();
    if sink_first {
        g.add(Box::new(sink));
        g.add(Box::new(src));
    } else {
        g.add(Box::new(src));
        g.add(Box::new(sink));
    }
    g.run().unwrap();
    let n = hook.data().samples().len();
    n
}

#[test]
fn result_independent_of_add_order() {
    let a = run(false);
    let b = run(true);
    eprintln!("source first: {a} samples delivered; sink first: {b} samples delivered");
    assert_eq!(a, 3);
    assert_eq!(b, 3, "Graph::run returned Ok with data still in flight");
}
