//! C16 demos: F6 Repeat::finite(0).again() underflows; F7 FileSource/SigMFSource emit once with
//! repeat(0); F8 VectorSource's per-run `first` marker is repeated on every piece.
use rustradio::block::{Block, BlockRet};
use rustradio::blocks::{FileSource, VectorSourceBuilder};
use rustradio::sigmf::SigMFSourceBuilder;
use rustradio::{Complex, Repeat};
use std::io::Write;

#[test]
fn f6_repeat_zero_again_does_not_underflow() {
    let r = std::panic::catch_unwind(|| {
        let mut r = Repeat::finite(0);
        let a = r.again();
        (a, r.done())
    });
    assert!(r.is_ok(), "Repeat::finite(0).again() panicked (counter underflow)");
    assert_eq!(r.unwrap(), (false, true));
}

#[test]
fn f7_file_source_repeat_zero_emits_nothing() {
    let d = tempfile::tempdir().unwrap();
    let p = d.path().join("x.bin");
    std::fs::File::create(&p).unwrap().write_all(&[1u8, 2, 3]).unwrap();
    let (mut src, out) = FileSource::<u8>::new(&p).unwrap();
    src.repeat(Repeat::finite(0));
    let mut eof = false;
    for _ in 0..10 {
        if matches!(src.work().unwrap(), BlockRet::EOF) {
            eof = true;
            break;
        }
    }
    let n = out.read_buf().unwrap().0.len();
    eprintln!("FileSource repeat(0): eof={eof} emitted {n} samples");
    assert!(eof);
    assert_eq!(n, 0, "repeat(0) must emit the data zero times");
}

#[test]
fn f7_sigmf_source_repeat_zero_emits_nothing() {
    let d = tempfile::tempdir().unwrap();
    let base = d.path().join("rec");
    let mut meta = base.clone().into_os_string();
    meta.push(".sigmf-meta");
    rustradio::sigmf::write(&meta, 1000.0, 1.0).unwrap();
    let mut data = base.clone().into_os_string();
    data.push(".sigmf-data");
    std::fs::File::create(&data).unwrap().write_all(&[0u8; 16]).unwrap();
    let (mut src, out) = SigMFSourceBuilder::<Complex>::new(base.with_extension("sigmf"))
        .repeat(Repeat::finite(0))
        .ignore_type_error()
        .build()
        .unwrap();
    let r = std::panic::catch_unwind(std::panic::AssertUnwindSafe(|| {
        let mut eof = false;
        for _ in 0..10 {
            if matches!(src.work().unwrap(), BlockRet::EOF) {
                eof = true;
                break;
            }
        }
        eof
    }));
    let n = out.read_buf().unwrap().0.len();
    eprintln!("SigMFSource repeat(0): result={r:?} emitted {n} samples");
    assert!(matches!(r, Ok(true)), "SigMFSource with repeat(0) panicked or never reported EOF");
    assert_eq!(n, 0, "repeat(0) must emit the data zero times");
}

#[test]
fn f8_first_marker_once_per_run() {
    // More data than the stream holds, so the first repetition is emitted in several pieces.
    let (mut src, out) = VectorSourceBuilder::new(vec![7u8; 5_000_000]).build();
    let mut firsts = 0;
    let mut starts = 0;
    loop {
        let ret = src.work().unwrap();
        let done = matches!(ret, BlockRet::EOF);
        let (r, tags) = out.read_buf().unwrap();
        firsts += tags.iter().filter(|t| t.key() == "VectorSource::first").count();
        starts += tags.iter().filter(|t| t.key() == "VectorSource::start").count();
        let n = r.len();
        r.consume(n);
        if done {
            break;
        }
    }
    eprintln!("VectorSource::first seen {firsts} times, ::start {starts} times");
    assert_eq!(starts, 1);
    assert_eq!(firsts, 1, "the 'first' marker must appear once, on the first sample");
}
