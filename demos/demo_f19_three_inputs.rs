//! C19: "with any number of input and output streams".  Before the fix this file does not compile:
//! the generated work() zipped inputs as ((a, b), c) but destructured (a, b, c).
use rustradio::block::Block;
use rustradio::stream::{new_stream, ReadStream, WriteStream};

#[derive(rustradio::rustradio_macros::Block)]
#[rustradio(new, sync)]
pub struct Sum3 {
    #[rustradio(in)]
    a: ReadStream<u8>,
    #[rustradio(in)]
    b: ReadStream<u16>,
    #[rustradio(in)]
    c: ReadStream<u32>,
    #[rustradio(out)]
    dst: WriteStream<u64>,
}
impl Sum3 {
    fn process_sync(&mut self, a: u8, b: u16, c: u32) -> u64 {
        a as u64 + b as u64 + c as u64
    }
}

#[test]
fn three_input_sync_block_works() {
    let (ta, ra) = new_stream::<u8>();
    let (tb, rb) = new_stream::<u16>();
    let (tc, rc) = new_stream::<u32>();
    let (mut blk, out) = Sum3::new(ra, rb, rc);
    for (n, v) in [(3usize, 1u64), (2, 2), (5, 3)] {
        let _ = (n, v);
    }
    let mut w = ta.write_buf().unwrap(); w.slice()[..3].copy_from_slice(&[1, 2, 3]); w.produce(3, &[]);
    let mut w = tb.write_buf().unwrap(); w.slice()[..2].copy_from_slice(&[10, 20]); w.produce(2, &[]);
    let mut w = tc.write_buf().unwrap(); w.slice()[..5].copy_from_slice(&[100, 200, 300, 400, 500]); w.produce(5, &[]);
    blk.work().unwrap();
    let (r, _) = out.read_buf().unwrap();
    assert_eq!(r.slice(), &[111, 222]); // min(3, 2, 5) steps
}
