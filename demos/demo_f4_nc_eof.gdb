set pagination off
set breakpoint pending on
set confirm off
break stream.rs:323
break demo_writer_done
run nc_eof_loses_packet --test-threads=1 --nocapture
info threads
set scheduler-locking on
thread 3
continue
set scheduler-locking off
continue
