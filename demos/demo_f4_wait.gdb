set pagination off
set breakpoint pending on
set confirm off
break circular_buffer.rs:368
break demo_writer_done
run sample_wait_says_never_with_data_present --test-threads=1 --nocapture
finish
info threads
set scheduler-locking on
thread 3
continue
set scheduler-locking off
continue
