//! C04 demonstration (run under gdb, see /verif/demos/demo_f4.gdb): the reader's end-of-stream
//! verdicts read "how much is buffered" first and "is the writer gone" second.  If the writer
//! commits its last data and is dropped between the two reads the verdict is wrong.
use rustradio::stream::{new_nocopy_stream, new_stream, StreamWait};
use std::time::Duration;

#[inline(never)]
#[unsafe(no_mangle)]
pub extern "C" fn demo_writer_done() {
    std::hint::black_box(());
}

#[test]
fn nc_eof_loses_packet() {
    let (tx, rx) = new_nocopy_stream::<Vec<u8>>();
    let w = std::thread::spawn(move || {
        std::thread::sleep(Duration::from_millis(300));
        tx.push(vec![1, 2, 3], &[]);
        drop(tx);
        demo_writer_done();
    });
    let verdict = rx.eof(); // gdb holds this thread between the emptiness read and the liveness read
    w.join().unwrap();
    let left = rx.pop();
    eprintln!("eof() = {verdict}, packet still queued = {}", left.is_some());
    assert!(!(verdict && left.is_some()), "eof() reported end-of-stream while a committed packet was still queued");
}

#[test]
fn sample_wait_says_never_with_data_present() {
    let (tx, rx) = new_stream::<u8>();
    let w = std::thread::spawn(move || {
        std::thread::sleep(Duration::from_millis(300));
        let mut wb = tx.write_buf().unwrap();
        wb.slice()[0] = 42;
        wb.produce(1, &[]);
        drop(tx);
        demo_writer_done();
    });
    let never = rx.wait(1); // times out with 0 samples; gdb holds it before the liveness read
    w.join().unwrap();
    let have = rx.read_buf().unwrap().0.len();
    eprintln!("wait(1) said never-satisfiable = {never}, samples readable = {have}");
    assert!(!(never && have >= 1), "wait(1) reported 'can never be satisfied' while 1 committed sample is readable");
}
