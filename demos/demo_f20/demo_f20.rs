//! Demonstration for the seeded C13 regression (HDLC deframer).
//!
//! A valid frame must be recovered regardless of what bits precede its
//! opening flag. Here the "noise" is simply a mark-idle line (all ones), of
//! various lengths, either at the very start of the stream or between two
//! frames that each carry their own opening and closing flag.
use rustradio::block::Block;
use rustradio::blocks::HdlcDeframer;
use rustradio::stream::new_stream;

const FLAG: [u8; 8] = [0, 1, 1, 1, 1, 1, 1, 0];

/// CRC-16/X.25, bitwise.
fn crc16_x25(data: &[u8]) -> u16 {
    let mut crc = 0xffffu16;
    for &b in data {
        crc ^= b as u16;
        for _ in 0..8 {
            crc = if crc & 1 != 0 {
                (crc >> 1) ^ 0x8408
            } else {
                crc >> 1
            };
        }
    }
    !crc
}

/// Flag, LSB-first payload + CRC with bit stuffing, flag.
fn frame(payload: &[u8]) -> Vec<u8> {
    let mut bytes = payload.to_vec();
    bytes.extend_from_slice(&crc16_x25(payload).to_le_bytes());
    let mut out = FLAG.to_vec();
    let mut ones = 0;
    for b in bytes {
        for i in 0..8 {
            let bit = (b >> i) & 1;
            out.push(bit);
            if bit == 1 {
                ones += 1;
                if ones == 5 {
                    out.push(0);
                    ones = 0;
                }
            } else {
                ones = 0;
            }
        }
    }
    out.extend_from_slice(&FLAG);
    out
}

/// Run the deframer over `bits`, return all emitted frames.
fn deframe(bits: &[u8]) -> Vec<Vec<u8>> {
    let (tx, rx) = new_stream::<u8>();
    let (mut deframer, out) = HdlcDeframer::new(rx, 1, 64);
    {
        let mut wb = tx.write_buf().unwrap();
        wb.fill_from_slice(bits);
        wb.produce(bits.len(), &[]);
    }
    drop(tx);
    for _ in 0..3 {
        deframer.work().unwrap();
    }
    let mut got = Vec::new();
    while let Some((pkt, _tags)) = out.pop() {
        got.push(pkt);
    }
    got
}


/// F20: a flag that shares its leading zero with the bit before it (`0111111` followed by the
/// frame's own `01111110`, or two flags written as `011111101111110`) completes a flag while fewer than
/// 7 bits have been collected.  The deframer must stay synchronised (that bit sequence IS a flag).
#[test]
fn frame_after_noise_ending_in_0111111() {
    let payload = b"hello, world".to_vec();
    let mut bits = vec![1u8, 0, 0, 1, 0, 1, 1, 1, 1, 1, 1];
    bits.extend(frame(&payload));
    assert_eq!(deframe(&bits), vec![payload.clone()], "frame lost after noise ending in 0111111");
}

#[test]
fn second_frame_after_six_idle_ones() {
    let a = vec![0x12u8, 0x34, 0x56];
    let b = b"second frame".to_vec();
    let mut bits = frame(&a);
    bits.extend(vec![1u8; 6]);
    bits.extend(frame(&b));
    assert_eq!(deframe(&bits), vec![a.clone(), b.clone()], "frame B lost after exactly 6 idle ones");
}

#[test]
fn flags_sharing_a_zero() {
    let b = b"payload".to_vec();
    let mut bits = FLAG.to_vec();
    bits.extend_from_slice(&FLAG[1..]);      // 0111111 0 111111 0
    bits.extend_from_slice(&frame(&b)[8..]);  // payload + closing flag (opening flag shared)
    assert_eq!(deframe(&bits), vec![b.clone()], "frame lost after two flags sharing a zero");
}
