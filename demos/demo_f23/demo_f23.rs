//! F23: AuEncode needs room for one whole PCM16 sample (2 bytes) in its output but says it waits for 1 byte.
//!
//! With exactly one byte of room `work()` computes `min(input, room / 2) == 0` and answers `WaitForStream(dst, 1)`.  That
//! wait is satisfied already, so a runner calls `work()` again at once - and gets the same answer: a busy loop for as long as
//! the reader frees bytes one at a time (or an odd amount and then pauses).  The property (C09) says: providing what was asked
//! for on that stream alone lets a following call make progress.
use rustradio::block::{Block, BlockRet};
use rustradio::blocks::AuEncode;
use rustradio::stream::new_stream;
use rustradio::Float;

#[test]
fn auencode_asks_for_the_room_it_needs() {
    let (tx, rx) = new_stream::<Float>();
    let (mut enc, out) = AuEncode::new(rx, rustradio::au::Encoding::Pcm16, 48000, 1);
    // Feed samples and run the encoder until its output stream is completely full.
    let mut full = false;
    for _ in 0..10_000 {
        {
            let mut w = tx.write_buf().unwrap();
            let n = w.len();
            if n > 0 {
                w.slice()[..n].fill(0.25);
                w.produce(n, &[]);
            }
        }
        match enc.work().unwrap() {
            BlockRet::Again => {}
            BlockRet::WaitForStream(_, _) => {
                let free = out.read_buf().unwrap().0.len();
                if free == 4_096_000 {
                    full = true;
                    break;
                }
            }
            _ => panic!("unexpected verdict"),
        }
    }
    assert!(full, "output never filled");
    // The reader takes ONE byte: one byte of room.
    {
        let (r, _) = out.read_buf().unwrap();
        r.consume(1);
    }
    let need = match enc.work().unwrap() {
        BlockRet::WaitForStream(_, need) => need,
        BlockRet::Again => panic!("made progress with one byte of room?"),
        _ => panic!("unexpected verdict"),
    };
    // What it asked for is there (1 byte free).  If that is all it asked for, the next call must make progress.
    if need <= 1 {
        let before = out.read_buf().unwrap().0.len();
        let again = enc.work().unwrap();
        let after = out.read_buf().unwrap().0.len();
        assert!(
            after > before || matches!(again, BlockRet::Again),
            "AuEncode waits for {need} byte of output room, has it, and still does nothing: idle spin"
        );
    }
}
