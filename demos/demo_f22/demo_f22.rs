//! F22: a signal source whose output stream is full must say what it waits for, not "call me again".
//!
//! With a completely full output `work()` copies nothing, commits zero samples, changes no state (the oscillator is not
//! advanced: zip/take over an empty window never ask it for a sample) and answers `Again`.  A runner calls it again at once
//! and gets the same answer: the block's thread spins at 100% CPU for as long as the sink is slower than the generator
//! (under `MTGraph`), and the single-threaded runner can never see that the graph has come to rest.
use rustradio::block::{Block, BlockRet};
use rustradio::blocks::{SignalSourceComplex, SignalSourceFloat};

fn check(name: &str, src: &mut dyn Block) {
    // Nobody reads the output.  The first call(s) fill it.
    let mut calls = 0;
    loop {
        calls += 1;
        assert!(calls < 100, "{name}: output never filled");
        match src.work().unwrap() {
            BlockRet::Again => {}
            BlockRet::WaitForStream(_, _) => return, // correct: asks for room
            _ => panic!("{name}: unexpected verdict"),
        }
        if calls >= 3 {
            // The whole stream was filled by the first call; calls 2 and 3 moved nothing and still said Again.
            panic!("{name}: answers Again with a full output stream and nothing done (idle spin)");
        }
    }
}

#[test]
fn complex_source_waits_for_room() {
    let (mut src, _out) = SignalSourceComplex::new(48000.0, 1000.0, 1.0);
    check("SignalSourceComplex", &mut src);
}

#[test]
fn float_source_waits_for_room() {
    let (mut src, _out) = SignalSourceFloat::new(48000.0, 1000.0, 1.0);
    check("SignalSourceFloat", &mut src);
}
