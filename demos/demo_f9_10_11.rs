//! C09 demos: F9 Delay (idle Again on full output; unbounded copy panics), F10 FftStream (idle Again
//! when the output is shorter than one FFT), F11 VecToStream (waits on its input when its output is short).
use rustradio::block::{Block, BlockRet};
use rustradio::blocks::{Delay, FftStream, VecToStream};
use rustradio::stream::{new_nocopy_stream, new_stream, ReadStream, WriteStream};
use rustradio::Complex;

fn feed<T: Copy>(tx: &WriteStream<T>, v: T, n: usize) -> usize {
    let mut w = tx.write_buf().unwrap();
    let n = n.min(w.len());
    w.slice()[..n].fill(v);
    w.produce(n, &[]);
    n
}
fn drain<T: Copy>(rx: &ReadStream<T>, n: usize) {
    let (r, _) = rx.read_buf().unwrap();
    let n = n.min(r.len());
    r.consume(n);
}
fn name(r: &BlockRet) -> String {
    format!("{r:?}")
}

#[test]
fn f9_delay_full_output_is_not_an_idle_again() {
    let (tx, rx) = new_stream::<u8>();
    let (mut d, out) = Delay::new(rx, 0);
    feed(&tx, 1, usize::MAX);
    d.work().unwrap(); // output now full
    feed(&tx, 2, 5);
    let verdicts: Vec<String> = (0..3).map(|_| name(&d.work().unwrap())).collect();
    eprintln!("Delay with full output answers {verdicts:?}");
    assert!(verdicts.iter().all(|v| v != "Again"), "'call me again' without any progress possible");
    drop(out);
}

#[test]
fn f9_delay_input_larger_than_output_space() {
    let (tx, rx) = new_stream::<u8>();
    let (mut d, out) = Delay::new(rx, 0);
    feed(&tx, 1, usize::MAX);
    d.work().unwrap(); // output now full
    drain(&out, 2); // two free output slots
    feed(&tx, 2, 5); // five input samples
    let r = std::panic::catch_unwind(std::panic::AssertUnwindSafe(|| name(&d.work().unwrap())));
    assert!(r.is_ok(), "Delay::work panicked with 5 input samples and 2 free output slots");
}

#[test]
fn f10_fftstream_short_output_is_not_an_idle_again() {
    let (tx, rx) = new_stream::<Complex>();
    let (mut f, out) = FftStream::new(rx, 8);
    feed(&tx, Complex::new(1.0, 0.0), usize::MAX);
    f.work().unwrap(); // output full
    drain(&out, 3); // 3 free output slots < one FFT of 8
    feed(&tx, Complex::new(1.0, 0.0), 16); // two FFTs worth of input waiting
    let verdicts: Vec<String> = (0..3).map(|_| name(&f.work().unwrap())).collect();
    eprintln!("FftStream with 3 free output slots answers {verdicts:?}");
    assert!(verdicts.iter().all(|v| v != "Again"), "'call me again' without any progress possible");
}

#[test]
fn f11_vectostream_waits_on_the_stream_that_is_short() {
    let (tx, rx) = new_nocopy_stream::<Vec<u8>>();
    let (mut b, out) = VecToStream::new(rx);
    let cap = out.total_size();
    tx.push(vec![0u8; cap], &[]);
    assert_eq!(name(&b.work().unwrap()), "Again"); // output now full
    tx.push(vec![7u8; 10], &[]);
    drop(tx); // upstream is finished; one packet still queued
    match b.work().unwrap() {
        BlockRet::WaitForStream(s, need) => {
            eprintln!("VecToStream waits for {need} on a stream whose closed() = {}", s.closed());
            assert!(!s.closed(), "waits on its (ended) input although the output is what is short: a runner retires \
                                  the block and the queued packet is lost");
        }
        other => panic!("unexpected verdict {other:?}"),
    };
}
