//! K2 (known finding, C15): SymbolSync panics on a long stretch without sign changes followed by alternation.
//!
//! `stream_pos` is an f32 that is re-centred ("stay around zero") only while the last sign change is recent.  After 2^24
//! samples without one it stops advancing; the next two sign changes in a row then fail
//! `assert!(self.stream_pos > self.last_sym_boundary_pos)` with "16777136 not > 16777136".
//! Written by the round-6 C15 seeding agent while reading the code (it is NOT a seeded change: it fails on the pinned tree);
//! brought into static reach by the second implicit flow of the content taint (state assigned under content control).
//! Run with --release (16.7 M samples).
use rustradio::Float;
use rustradio::block::{Block, BlockRet};
use rustradio::blocks::SymbolSync;
use rustradio::iir_filter::IirFilter;
use rustradio::symbol_sync::TedZeroCrossing;

#[test]
fn long_silence_then_alternation() -> anyhow::Result<()> {
    let (tx, rx) = rustradio::stream::new_stream::<Float>();
    let (mut ss, out) = SymbolSync::new(
        rx,
        8.0,
        0.5,
        Box::new(TedZeroCrossing::new()),
        Box::new(IirFilter::new(&[0.1, 0.9])),
    );
    let total: usize = (1 << 24) + 1000;
    let mut sent = 0usize;
    while sent < total {
        {
            let mut w = tx.write_buf()?;
            let n = std::cmp::min(w.len(), total - sent);
            w.slice()[..n].fill(-1.0);
            w.produce(n, &[]);
            sent += n;
        }
        loop {
            match ss.work()? {
                BlockRet::Again => {}
                _ => break,
            }
            let (o, _) = out.read_buf()?;
            let n = o.len();
            o.consume(n);
        }
        let (o, _) = out.read_buf()?;
        let n = o.len();
        o.consume(n);
    }
    // Now a short alternating pattern.
    {
        let mut w = tx.write_buf()?;
        let pat = [1.0, -1.0, 1.0, -1.0, 1.0, -1.0];
        w.slice()[..pat.len()].copy_from_slice(&pat);
        w.produce(pat.len(), &[]);
    }
    while let BlockRet::Again = ss.work()? {}
    Ok(())
}
