//! C17/F12: Mode::Append is documented "Append to existing file, or create a new file if it doesn't exist".
use rustradio::blocks::{FileSink, NoCopyFileSink};
use rustradio::file_sink::Mode;
use rustradio::stream::{new_nocopy_stream, new_stream};

#[test]
fn append_creates_absent_file() {
    let d = tempfile::tempdir().unwrap();
    let (_tx, rx) = new_stream::<u8>();
    let r = FileSink::new(rx, d.path().join("absent.bin"), Mode::Append);
    assert!(r.is_ok(), "FileSink Append on an absent file failed: {:?}", r.err());
    let (_tx, rx) = new_nocopy_stream::<Vec<u8>>();
    let r = NoCopyFileSink::new(rx, d.path().join("absent2.bin"), Mode::Append);
    assert!(r.is_ok(), "NoCopyFileSink Append on an absent file failed: {:?}", r.err());
}
