//! C02/C12 F3: "consuming zero discards none".  Buffer::consume(0) computed newpos == rpos, took the
//! wrap branch and removed every tag in the stream; Delay calls consume(0) on every work() and therefore
//! never forwarded a tag.
use rustradio::block::Block;
use rustradio::blocks::Delay;
use rustradio::stream::{new_stream, Tag, TagValue};

#[test]
fn consume_zero_keeps_tags() {
    let (tx, rx) = new_stream::<u8>();
    let mut w = tx.write_buf().unwrap();
    w.slice()[..4].copy_from_slice(&[1, 2, 3, 4]);
    w.produce(4, &[Tag::new(2, "mark", TagValue::Bool(true))]);
    let (r, tags) = rx.read_buf().unwrap();
    assert_eq!(tags.len(), 1);
    r.consume(0);
    let (_r, tags) = rx.read_buf().unwrap();
    assert_eq!(tags.len(), 1, "consume(0) discarded the tag");
}

#[test]
fn delay_forwards_tags() {
    let (tx, rx) = new_stream::<u8>();
    let (mut d, out) = Delay::new(rx, 2);
    let mut w = tx.write_buf().unwrap();
    w.slice()[..4].copy_from_slice(&[1, 2, 3, 4]);
    w.produce(4, &[Tag::new(1, "mark", TagValue::Bool(true))]);
    for _ in 0..4 {
        let _ = d.work().unwrap();
    }
    let (r, tags) = out.read_buf().unwrap();
    eprintln!("delayed output {:?}, tags {:?}", r.slice(), tags);
    assert_eq!(r.slice(), &[0, 0, 1, 2, 3, 4]);
    assert_eq!(tags.iter().filter(|t| t.key() == "mark").count(), 1, "Delay dropped the tag");
}
