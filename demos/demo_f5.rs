use rustradio::block::{Block, BlockEOF, BlockName, BlockRet};
use rustradio::graph::GraphRunner;
use rustradio::{Error, Result};

struct Failing;
impl BlockName for Failing {
    fn block_name(&self) -> &str {
        "Failing"
    }
}
impl BlockEOF for Failing {}
impl Block for Failing {
    fn work(&mut self) -> Result<BlockRet> {
        Err(Error::msg("boom"))
    }
}

#[test]
fn mt_failing_block_returns_err() {
    let mut g = rustradio::mtgraph::MTGraph::new();
    g.add(Box::new(Failing));
    let r = std::panic::catch_unwind(std::panic::AssertUnwindSafe(|| g.run()));
    match r {
        Err(_) => panic!("run() panicked instead of returning the block error"),
        Ok(Ok(())) => panic!("run() reported success"),
        Ok(Err(e)) => eprintln!("run() returned Err: {e}"),
    }
}

#[test]
fn st_failing_block_returns_err() {
    let mut g = rustradio::graph::Graph::new();
    g.add(Box::new(Failing));
    assert!(g.run().is_err());
}
