#!/bin/bash
# Build the framework from files on disk only (offline) and warm the dependency target dirs.
set -e
cd "$(dirname "$0")"
export CARGO_NET_OFFLINE=true
(cd rrfacts && cargo build --release --offline 2>&1 | tail -2)
python3 - <<'PY'
import sys
sys.path.insert(0, '.')
from rrlint import facts
for cfg in ("default",):
    p = facts.extract(cfg, verbose=True)
    print("facts ok:", cfg, p)
import os
for cfg in ("family", "positive", "family_big"):
    if os.path.isdir(facts.CONFIGS[cfg]["dir"]):
        p = facts.extract(cfg, verbose=True)
        print("facts ok:", cfg, p)
from rrlint import witness
r = witness.run_witnesses()
print("witnesses:", sum(1 for v in r["results"].values() if v == "ok"), "of", len(r["results"]), "ok")
PY
