//! E3 — compile-time witnesses (DESIGN §2.1).  Every `compile_fail,E0xxx` doctest is paired with a
//! compiling twin (`no_run`: compiled, never executed) that differs only in the offending line, so a
//! witness can never pass because of an unrelated error.  Run with `cargo +nightly test --doc`
//! (stable ignores the error code).  Names: w_<property>_<rule>_<what>; twins end in `_twin`.

/// ReadStream is not Clone: one read handle per stream.
/// ```compile_fail,E0599
/// let (_w, r) = rustradio::stream::new_stream::<u8>();
/// let _r2 = r.clone();
/// ```
pub fn w_c03_r4_readstream_not_clone() {}
/// ```no_run
/// let (_w, r) = rustradio::stream::new_stream::<u8>();
/// let _r2 = &r;
/// ```
pub fn w_c03_r4_readstream_not_clone_twin() {}

/// WriteStream is not Clone: one write handle per stream.
/// ```compile_fail,E0599
/// let (w, _r) = rustradio::stream::new_stream::<u8>();
/// let _w2 = w.clone();
/// ```
pub fn w_c03_r4_writestream_not_clone() {}
/// ```no_run
/// let (w, _r) = rustradio::stream::new_stream::<u8>();
/// let _w2 = &w;
/// ```
pub fn w_c03_r4_writestream_not_clone_twin() {}

/// NC stream ends are not Clone either.
/// ```compile_fail,E0599
/// let (w, _r) = rustradio::stream::new_nocopy_stream::<Vec<u8>>();
/// let _w2 = w.clone();
/// ```
pub fn w_c03_r4_ncwritestream_not_clone() {}
/// ```compile_fail,E0599
/// let (_w, r) = rustradio::stream::new_nocopy_stream::<Vec<u8>>();
/// let _r2 = r.clone();
/// ```
pub fn w_c03_r4_ncreadstream_not_clone() {}
/// ```no_run
/// let (w, r) = rustradio::stream::new_nocopy_stream::<Vec<u8>>();
/// let _w2 = &w;
/// let _r2 = &r;
/// ```
pub fn w_c03_r4_ncstream_not_clone_twin() {}

/// The shared buffer inside a stream end is private.
/// ```compile_fail,E0616
/// let (_w, r) = rustradio::stream::new_stream::<u8>();
/// let _c = &r.circ;
/// ```
pub fn w_c03_r4_readstream_field_private() {}
/// ```compile_fail,E0616
/// let (w, _r) = rustradio::stream::new_stream::<u8>();
/// let _c = &w.circ;
/// ```
pub fn w_c03_r4_writestream_field_private() {}
/// ```no_run
/// let (w, r) = rustradio::stream::new_stream::<u8>();
/// let _c = (&r, &w);
/// ```
pub fn w_c03_r4_stream_field_private_twin() {}

/// Buffer::consume / produce / slice_mut cannot be called from another crate: ring state and raw memory
/// are only reachable through the window API.
/// ```compile_fail,E0624
/// let b = std::sync::Arc::new(rustradio::circular_buffer::Buffer::<u8>::new(4096).unwrap());
/// b.consume(0);
/// ```
pub fn w_c03_r4_buffer_consume_private() {}
/// ```compile_fail,E0624
/// let b = std::sync::Arc::new(rustradio::circular_buffer::Buffer::<u8>::new(4096).unwrap());
/// b.produce(0, &[]);
/// ```
pub fn w_c03_r4_buffer_produce_private() {}
/// ```compile_fail,E0624
/// let b = std::sync::Arc::new(rustradio::circular_buffer::Buffer::<u8>::new(4096).unwrap());
/// let _s = b.slice_mut(0, 1);
/// ```
pub fn w_c03_r4_buffer_slice_mut_private() {}
/// ```compile_fail,E0624
/// let b = std::sync::Arc::new(rustradio::circular_buffer::Buffer::<u8>::new(4096).unwrap());
/// let _s = b.slice(0, 1);
/// ```
pub fn w_c03_r4_buffer_slice_private() {}
/// ```no_run
/// let b = std::sync::Arc::new(rustradio::circular_buffer::Buffer::<u8>::new(4096).unwrap());
/// let _f = b.free();
/// ```
pub fn w_c03_r4_buffer_private_twin() {}

/// Windows cannot be fabricated: their constructors are private.
/// ```compile_fail,E0624
/// let b = std::sync::Arc::new(rustradio::circular_buffer::Buffer::<u8>::new(4096).unwrap());
/// let _r = rustradio::circular_buffer::BufferReader::new(b, 0, 10);
/// ```
pub fn w_c03_r4_bufferreader_new_private() {}
/// ```compile_fail,E0624
/// let b = std::sync::Arc::new(rustradio::circular_buffer::Buffer::<u8>::new(4096).unwrap());
/// let _w = rustradio::circular_buffer::BufferWriter::new(b, 0, 10);
/// ```
pub fn w_c03_r4_bufferwriter_new_private() {}
/// ```no_run
/// let b = std::sync::Arc::new(rustradio::circular_buffer::Buffer::<u8>::new(4096).unwrap());
/// let _w = b.clone().write_buf().unwrap();
/// let _r = b.read_buf().unwrap();
/// ```
pub fn w_c03_r4_window_new_private_twin() {}

/// consume() takes the read window by value: nothing can be read through it afterwards.
/// ```compile_fail,E0382
/// let (_w, r) = rustradio::stream::new_stream::<u8>();
/// let (win, _tags) = r.read_buf().unwrap();
/// win.consume(0);
/// let _n = win.len();
/// ```
pub fn w_c03_r4_consume_by_value() {}
/// ```no_run
/// let (_w, r) = rustradio::stream::new_stream::<u8>();
/// let (win, _tags) = r.read_buf().unwrap();
/// let _n = win.len();
/// win.consume(0);
/// ```
pub fn w_c03_r4_consume_by_value_twin() {}

/// produce() takes the write window by value: nothing can be written through it afterwards.
/// ```compile_fail,E0382
/// let (w, _r) = rustradio::stream::new_stream::<u8>();
/// let mut win = w.write_buf().unwrap();
/// win.produce(0, &[]);
/// let _n = win.slice().len();
/// ```
pub fn w_c03_r4_produce_by_value() {}
/// ```no_run
/// let (w, _r) = rustradio::stream::new_stream::<u8>();
/// let mut win = w.write_buf().unwrap();
/// let _n = win.slice().len();
/// win.produce(0, &[]);
/// ```
pub fn w_c03_r4_produce_by_value_twin() {}

/// The write window hands out its memory under a unique borrow: two live mutable slices are impossible.
/// ```compile_fail,E0499
/// let (w, _r) = rustradio::stream::new_stream::<u8>();
/// let mut win = w.write_buf().unwrap();
/// let a = win.slice();
/// let b = win.slice();
/// a[0] = 1;
/// b[0] = 2;
/// ```
pub fn w_c03_r4_two_mut_slices() {}
/// ```no_run
/// let (w, _r) = rustradio::stream::new_stream::<u8>();
/// let mut win = w.write_buf().unwrap();
/// let a = win.slice();
/// a[0] = 1;
/// let b = win.slice();
/// b[0] = 2;
/// ```
pub fn w_c03_r4_two_mut_slices_twin() {}

/// A slice of the write window cannot be used after the commit.
/// ```compile_fail,E0505
/// let (w, _r) = rustradio::stream::new_stream::<u8>();
/// let mut win = w.write_buf().unwrap();
/// let a = win.slice();
/// win.produce(0, &[]);
/// a[0] = 1;
/// ```
pub fn w_c03_r4_slice_after_produce() {}
/// ```no_run
/// let (w, _r) = rustradio::stream::new_stream::<u8>();
/// let mut win = w.write_buf().unwrap();
/// let a = win.slice();
/// a[0] = 1;
/// win.produce(0, &[]);
/// ```
pub fn w_c03_r4_slice_after_produce_twin() {}

/// A slice of the read window cannot outlive the consume.
/// ```compile_fail,E0505
/// let (_w, r) = rustradio::stream::new_stream::<u8>();
/// let (win, _tags) = r.read_buf().unwrap();
/// let s = win.slice();
/// win.consume(0);
/// let _x = s.len();
/// ```
pub fn w_c03_r4_slice_after_consume() {}
/// ```no_run
/// let (_w, r) = rustradio::stream::new_stream::<u8>();
/// let (win, _tags) = r.read_buf().unwrap();
/// let s = win.slice();
/// let _x = s.len();
/// win.consume(0);
/// ```
pub fn w_c03_r4_slice_after_consume_twin() {}

/// A BlockRet borrows the block: work() cannot be called again while a verdict (and the stream it names)
/// is still held (C09: verdicts do not outlive the call that made them).
/// ```compile_fail,E0499
/// use rustradio::block::Block;
/// let (_tx, rx) = rustradio::stream::new_stream::<u8>();
/// let mut b = rustradio::blocks::NullSink::new(rx);
/// let v1 = b.work().unwrap();
/// let v2 = b.work().unwrap();
/// drop(v1);
/// drop(v2);
/// ```
pub fn w_c09_r1_verdict_borrows_block() {}
/// ```no_run
/// use rustradio::block::Block;
/// let (_tx, rx) = rustradio::stream::new_stream::<u8>();
/// let mut b = rustradio::blocks::NullSink::new(rx);
/// let v1 = b.work().unwrap();
/// drop(v1);
/// let v2 = b.work().unwrap();
/// drop(v2);
/// ```
pub fn w_c09_r1_verdict_borrows_block_twin() {}

/// C19.R1: the generated constructor returns the read ends in declaration order, with the declared
/// element types and stream kinds (three distinct output types make the order type-checked).
/// ```no_run
/// use rustradio::stream::{ReadStream, WriteStream, NCReadStream, NCWriteStream};
/// use rustradio::block::{Block, BlockRet};
/// #[derive(rustradio::rustradio_macros::Block)]
/// #[rustradio(new)]
/// pub struct B {
///     #[rustradio(in)] src: ReadStream<u8>,
///     #[rustradio(out)] o1: WriteStream<u16>,
///     #[rustradio(out)] o2: WriteStream<u32>,
///     #[rustradio(out)] o3: NCWriteStream<Vec<u64>>,
///     gain: f32,
/// }
/// impl Block for B { fn work(&mut self) -> rustradio::Result<BlockRet> { Ok(BlockRet::EOF) } }
/// let (_tx, rx) = rustradio::stream::new_stream::<u8>();
/// let (_b, _r1, _r2, _r3): (B, ReadStream<u16>, ReadStream<u32>, NCReadStream<Vec<u64>>) = B::new(rx, 1.0);
/// ```
pub fn w_c19_r1_new_output_order_twin() {}
/// ```compile_fail,E0308
/// use rustradio::stream::{ReadStream, WriteStream, NCReadStream, NCWriteStream};
/// use rustradio::block::{Block, BlockRet};
/// #[derive(rustradio::rustradio_macros::Block)]
/// #[rustradio(new)]
/// pub struct B {
///     #[rustradio(in)] src: ReadStream<u8>,
///     #[rustradio(out)] o1: WriteStream<u16>,
///     #[rustradio(out)] o2: WriteStream<u32>,
///     #[rustradio(out)] o3: NCWriteStream<Vec<u64>>,
///     gain: f32,
/// }
/// impl Block for B { fn work(&mut self) -> rustradio::Result<BlockRet> { Ok(BlockRet::EOF) } }
/// let (_tx, rx) = rustradio::stream::new_stream::<u8>();
/// let (_b, _r1, _r2, _r3): (B, ReadStream<u32>, ReadStream<u16>, NCReadStream<Vec<u64>>) = B::new(rx, 1.0);
/// ```
pub fn w_c19_r1_new_output_order() {}

/// C19.R1: declaration order, not field-NAME order: the outputs are declared `upper`, `lower`, `mid` (not alphabetical) with
/// three distinct types, so a constructor that hands the read ends back in any other order does not type-check here.
/// ```no_run
/// use rustradio::stream::{ReadStream, WriteStream, NCReadStream, NCWriteStream};
/// use rustradio::block::{Block, BlockRet};
/// #[derive(rustradio::rustradio_macros::Block)]
/// #[rustradio(new)]
/// pub struct B {
///     #[rustradio(in)] src: ReadStream<u8>,
///     #[rustradio(out)] upper: WriteStream<u16>,
///     #[rustradio(out)] lower: WriteStream<u32>,
///     #[rustradio(out)] mid: NCWriteStream<Vec<u64>>,
///     gain: f32,
/// }
/// impl Block for B { fn work(&mut self) -> rustradio::Result<BlockRet> { Ok(BlockRet::EOF) } }
/// let (_tx, rx) = rustradio::stream::new_stream::<u8>();
/// let (_b, _r1, _r2, _r3): (B, ReadStream<u16>, ReadStream<u32>, NCReadStream<Vec<u64>>) = B::new(rx, 1.0);
/// ```
pub fn w_c19_r1_new_output_order_unsorted_twin() {}
/// C19.R1: a caller that expects the read ends in field-name order (`lower`, `mid`, `upper`) must be rejected.
/// ```compile_fail,E0308
/// use rustradio::stream::{ReadStream, WriteStream, NCReadStream, NCWriteStream};
/// use rustradio::block::{Block, BlockRet};
/// #[derive(rustradio::rustradio_macros::Block)]
/// #[rustradio(new)]
/// pub struct B {
///     #[rustradio(in)] src: ReadStream<u8>,
///     #[rustradio(out)] upper: WriteStream<u16>,
///     #[rustradio(out)] lower: WriteStream<u32>,
///     #[rustradio(out)] mid: NCWriteStream<Vec<u64>>,
///     gain: f32,
/// }
/// impl Block for B { fn work(&mut self) -> rustradio::Result<BlockRet> { Ok(BlockRet::EOF) } }
/// let (_tx, rx) = rustradio::stream::new_stream::<u8>();
/// let (_b, _r1, _r2, _r3): (B, ReadStream<u32>, NCReadStream<Vec<u64>>, ReadStream<u16>) = B::new(rx, 1.0);
/// ```
pub fn w_c19_r1_new_output_order_unsorted() {}
/// C19.R1 (sync form): the generated work() hands the i-th component of process_sync's result to the i-th DECLARED
/// output (`upper: u16` then `lower: u32`, not alphabetical): any other pairing does not type-check.
/// ```no_run
/// use rustradio::stream::{ReadStream, WriteStream};
/// #[derive(rustradio::rustradio_macros::Block)]
/// #[rustradio(new, sync)]
/// pub struct S {
///     #[rustradio(in)] src: ReadStream<u8>,
///     #[rustradio(out)] upper: WriteStream<u16>,
///     #[rustradio(out)] lower: WriteStream<u32>,
/// }
/// impl S { fn process_sync(&mut self, a: u8) -> (u16, u32) { (a as u16, a as u32) } }
/// let (_tx, rx) = rustradio::stream::new_stream::<u8>();
/// let (_b, _r1, _r2): (S, ReadStream<u16>, ReadStream<u32>) = S::new(rx);
/// ```
pub fn w_c19_r1_sync_output_order_unsorted_twin() {}
